package vc

// Solver portfolio: every obligation is raced on z3-new 5.1.0, z3 4.8.12 and
// cvc5 1.0; the first definite answer wins.

import (
	"bytes"
	"context"
	"fmt"
	"os"
	"os/exec"
	"path/filepath"
	"strings"
	"sync"
	"time"
)

type SolveResult struct {
	Status  string // unsat | sat | unknown
	Solver  string
	Seconds float64
	Output  string // raw output of the deciding solver (model for sat)
	All     map[string]string
	File    string
}

type solverSpec struct {
	name string
	cmd  func(file string, timeoutS int, seed int) []string
}

var solvers = []solverSpec{
	{"z3-5.1.0", func(f string, t, seed int) []string {
		return []string{"z3-new", fmt.Sprintf("-T:%d", t), fmt.Sprintf("smt.random_seed=%d", seed), fmt.Sprintf("sat.random_seed=%d", seed), f}
	}},
	{"z3-4.8.12", func(f string, t, seed int) []string {
		return []string{"z3", fmt.Sprintf("-T:%d", t), fmt.Sprintf("smt.random_seed=%d", seed), fmt.Sprintf("sat.random_seed=%d", seed), f}
	}},
	{"cvc5-1.0.3", func(f string, t, seed int) []string {
		return []string{"cvc5", fmt.Sprintf("--tlimit=%d", t*1000), "--produce-models", fmt.Sprintf("--seed=%d", seed), f}
	}},
}

func sanitizeFile(name string) string {
	r := strings.NewReplacer("/", "_", ":", "_", "#", "-", "*", "", "(", "", ")", "", " ", "_", "$", "_")
	n := r.Replace(name)
	if len(n) > 180 {
		n = n[:180]
	}
	return n
}

// Solve discharges one obligation. all=true waits for every solver (thorough
// tier: answers must not disagree).
func Solve(o *Obligation, outDir string, timeoutS int, seed int, all bool) *SolveResult {
	os.MkdirAll(outDir, 0o755)
	file := filepath.Join(outDir, sanitizeFile(o.Name)+".smt2")
	text := o.Query()
	if !o.Cover || true {
		text += "(get-model)\n"
	}
	os.WriteFile(file, []byte(text), 0o644)
	res := &SolveResult{Status: "unknown", All: map[string]string{}, File: file}
	// an obligation whose goal is literally false (a call the contract expects is not in the
	// function, a forbidden call is) is decided by construction: no solver is asked
	if strings.TrimSpace(o.Goal) == "false" && !o.Cover {
		res.Status = "sat"
		res.Solver = "none (goal is false by construction)"
		res.All["none"] = "goal false by construction"
		return res
	}
	ctx, cancel := context.WithCancel(context.Background())
	defer cancel()
	type ans struct {
		solver, status, out string
		secs           float64
	}
	ch := make(chan ans, len(solvers))
	var wg sync.WaitGroup
	for _, sv := range solvers {
		wg.Add(1)
		go func(sv solverSpec) {
			defer wg.Done()
			argv := sv.cmd(file, timeoutS, seed)
			start := time.Now()
			c, cc := context.WithTimeout(ctx, time.Duration(timeoutS+2)*time.Second)
			defer cc()
			cmd := exec.CommandContext(c, argv[0], argv[1:]...)
			var buf bytes.Buffer
			cmd.Stdout = &buf
			cmd.Stderr = &buf
			cmd.Run()
			out := buf.String()
			first := ""
			for _, ln := range strings.Split(out, "\n") {
				ln = strings.TrimSpace(ln)
				if ln == "" || strings.HasPrefix(ln, "WARNING") || strings.HasPrefix(ln, "(warning") {
					continue
				}
				first = ln
				break
			}
			status := "unknown"
			switch first {
			case "unsat":
				status = "unsat"
			case "sat":
				status = "sat"
			case "timeout":
				status = "timeout"
			case "unknown":
				status = "unknown"
			default:
				if ctx.Err() != nil {
					status = "cancelled"
				} else if c.Err() != nil {
					status = "timeout"
				} else {
					status = "error"
				}
			}
			ch <- ans{sv.name, status, out, time.Since(start).Seconds()}
		}(sv)
	}
	go func() { wg.Wait(); close(ch) }()
	for a := range ch {
		res.All[a.solver] = a.status
		if a.status == "error" && res.Output == "" {
			res.Output = a.solver + ": " + truncate(a.out, 600)
		}
		if (a.status == "unsat" || a.status == "sat") && res.Status == "unknown" {
			res.Status = a.status
			res.Solver = a.solver
			res.Seconds = a.secs
			res.Output = truncate(a.out, 20000)
			if !all {
				cancel()
			}
		} else if (a.status == "unsat" || a.status == "sat") && a.status != res.Status {
			res.Status = "disagree"
			res.Output += "\n--- " + a.solver + " says " + a.status
		}
	}
	return res
}

func truncate(s string, n int) string {
	if len(s) > n {
		return s[:n] + "...[truncated]"
	}
	return s
}
