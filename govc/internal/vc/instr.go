package vc

// Semantics of individual SSA instructions.

import (
	"fmt"
	"go/token"
	"go/types"
	"sort"
	"strconv"
	"strings"

	"golang.org/x/tools/go/ssa"
)

func (fr *frame) instr(in ssa.Instruction, st *State) {
	s := fr.s
	fk := FuncKey(fr.fn)
	switch x := in.(type) {
	case *ssa.DebugRef:
		return
	case *ssa.Alloc:
		et := x.Type().Underlying().(*types.Pointer).Elem()
		if isScalarAlloc(x) && !allocEscapes(x, 0) {
			// non-escaping local variable cell: a state variable of its own
			name := LocalCellName(x)
			so := SortOf(et)
			s.getMap(st, name, so)
			st.Maps[name] = zeroOf(so)
			fr.locs[x] = &loc{kind: locGlobal, mapName: name, sort: so, gt: et}
			fr.vals[x] = TV{T: "0", S: "Int", GT: x.Type()}
			return
		}
		r := s.allocRef(st, fr.name(x))
		fr.zeroInit(st, et, r, 0)
		fr.ghostDefaults(st, r)
		fr.vals[x] = TV{T: r, S: "Int", GT: x.Type()}
		if _, isStruct := et.Underlying().(*types.Struct); !isStruct {
			fr.locs[x] = &loc{kind: locCell, base: r, mapName: CellMapName(et), sort: SortOf(et), gt: et}
		}
	case *ssa.FieldAddr:
		base := fr.val(x.X, st)
		s.assume(st, fmt.Sprintf("(not (= %s 0))", base.T)) // a nil dereference panics: partial correctness
		pt := x.X.Type().Underlying().(*types.Pointer).Elem()
		name, ft := FieldMapName(pt, x.Field)
		l := &loc{kind: locField, base: base.T, mapName: name, sort: SortOf(ft), gt: ft}
		fr.locs[x] = l
		fr.vals[x] = TV{T: s.subRef(name, base.T), S: "Int", GT: x.Type()}
	case *ssa.Field:
		base := fr.val(x.X, st)
		name, ft := FieldMapName(x.X.Type(), x.Field)
		l := &loc{kind: locField, base: base.T, mapName: name, sort: SortOf(ft), gt: ft}
		fr.vals[x] = fr.load(st, l)
	case *ssa.IndexAddr:
		idx := fr.val(x.Index, st)
		switch xt := x.X.Type().Underlying().(type) {
		case *types.Slice:
			sl := fr.val(x.X, st)
			if sl.S == "Bytes" {
				s.note("%s: element address of []byte (in-place byte write) not modelled", fk)
				fr.vals[x] = s.freshValue(st, fr.name(x), x.Type())
				fr.locs[x] = &loc{kind: locCell, base: fr.vals[x].T, mapName: "C:Int", sort: "Int", gt: xt.Elem()}
				return
			}
			s.assume(st, fmt.Sprintf("(and (>= %s 0) (< %s (sl-len %s)))", idx.T, idx.T, sl.T)) // out of range panics
			fr.locs[x] = &loc{kind: locElem, base: "(sl-arr " + sl.T + ")", idx: idx.T, mapName: ElemMapName(xt.Elem()), sort: SortOf(xt.Elem()), gt: xt.Elem()}
			fr.vals[x] = TV{T: "0", S: "Int", GT: x.Type()}
		case *types.Pointer: // pointer to array
			arr := fr.val(x.X, st)
			at, _ := xt.Elem().Underlying().(*types.Array)
			if at == nil {
				s.fail("%s: IndexAddr on %s", fk, x.X.Type())
				return
			}
			s.assume(st, fmt.Sprintf("(and (>= %s 0) (< %s %d))", idx.T, idx.T, at.Len()))
			fr.locs[x] = &loc{kind: locElem, base: arr.T, idx: idx.T, mapName: ElemMapName(at.Elem()), sort: SortOf(at.Elem()), gt: at.Elem()}
			fr.vals[x] = TV{T: "0", S: "Int", GT: x.Type()}
		default:
			s.fail("%s: IndexAddr on %s", fk, x.X.Type())
		}
	case *ssa.Index:
		base := fr.val(x.X, st)
		idx := fr.val(x.Index, st)
		if base.S == "Str" {
			fr.vals[x] = TV{T: fmt.Sprintf("(sat %s %s)", base.T, idx.T), S: "Int", GT: x.Type()}
			return
		}
		s.note("%s: index of array value not modelled", fk)
		fr.vals[x] = s.freshValue(st, fr.name(x), x.Type())
	case *ssa.UnOp:
		fr.unop(x, st)
	case *ssa.BinOp:
		fr.vals[x] = fr.binop(x.Op, fr.val(x.X, st), fr.val(x.Y, st), x.Type(), st)
	case *ssa.Store:
		l := fr.locOf(x.Addr, st)
		v := fr.val(x.Val, st)
		if fa, ok := x.Addr.(*ssa.FieldAddr); ok && fr.env0 != nil && s.FC != nil && len(s.FC.Ats) > 0 {
			if pt, ok := fa.X.Type().Underlying().(*types.Pointer); ok {
				if stt, ok := pt.Elem().Underlying().(*types.Struct); ok {
					fr.pseudoAt("fieldwrite."+stt.Field(fa.Field).Name(), x, []TV{fr.val(fa.X, st), v}, st)
				}
			}
		}
		fr.store(st, l, v)
	case *ssa.Call:
		res := fr.call(x.Common(), x, st)
		fr.vals[x] = res
	case *ssa.Go:
		s.note("%s: go statement: the spawned call is executed synchronously at the spawn point (no interleaving)", fk)
		if mc, isClosure := x.Common().Value.(*ssa.MakeClosure); isClosure || x.Common().StaticCallee() != nil {
			// `deferred go`: the spawned literal really runs later - what it captured by
			// reference must keep its value (its body is executed right here anyway)
			if isClosure && (fr.isTop || fr.transparent) && s.FC != nil {
				for _, d := range s.FC.Deferred {
					if lit, ok := mc.Fn.(*ssa.Function); ok && d.Callee == "go" {
						fr.capturesStay(d, mc, lit)
					}
				}
			}
			fr.call(x.Common(), nil, st)
		} else {
			fr.callOpaqueEffects(x.Common(), st)
		}
	case *ssa.Defer:
		fr.defers = append(fr.defers, x)
		name := fmt.Sprintf("D:a%d.%d", fr.act, len(fr.defers))
		s.mapSort[name] = "Bool"
		st.Maps[name] = "true"
		// evaluate arguments now (Go semantics)
		for _, a := range x.Call.Args {
			fr.val(a, st)
		}
		if x.Call.Value != nil {
			fr.val(x.Call.Value, st)
		}
	case *ssa.RunDefers:
		for i := len(fr.defers) - 1; i >= 0; i-- {
			d := fr.defers[i]
			name := fmt.Sprintf("D:a%d.%d", fr.act, i+1)
			flag, ok := st.Maps[name]
			if !ok || flag == "false" {
				continue
			}
			if flag == "true" {
				fr.call(d.Common(), nil, st)
				continue
			}
			// conditionally registered defer: split and merge
			a := st.clone()
			a.Guard = s.define("g", "Bool", mkAnd([]string{st.Guard, flag}))
			b := st.clone()
			b.Guard = s.define("g", "Bool", mkAnd([]string{st.Guard, mkNot(flag)}))
			fr.call(d.Common(), nil, a)
			m := s.merge([]*State{a, b})
			st.Guard = m.Guard
			st.Maps = m.Maps
		}
	case *ssa.Convert:
		fr.convert(x, st)
	case *ssa.ChangeType:
		v := fr.val(x.X, st)
		v.GT = x.Type()
		fr.vals[x] = v
		if c, ok := fr.clos[x.X]; ok {
			fr.clos[x] = c
		}
	case *ssa.ChangeInterface:
		v := fr.val(x.X, st)
		v.GT = x.Type()
		fr.vals[x] = v
	case *ssa.MakeInterface:
		v := fr.val(x.X, st)
		payload := fr.box(v, st)
		fr.vals[x] = TV{T: s.define(fr.name(x), "Iface", fmt.Sprintf("(mk-iface %s %s)", s.typeID(x.X.Type()), payload)), S: "Iface", GT: x.Type()}
	case *ssa.TypeAssert:
		fr.typeAssert(x, st)
	case *ssa.Extract:
		t := fr.val(x.Tuple, st)
		if x.Index < len(t.Tup) {
			fr.vals[x] = t.Tup[x.Index]
		} else {
			fr.vals[x] = s.freshValue(st, fr.name(x), x.Type())
		}
	case *ssa.Slice:
		fr.sliceOp(x, st)
	case *ssa.MakeSlice:
		ln := fr.val(x.Len, st)
		st0 := x.Type().Underlying().(*types.Slice)
		if SortOf(st0) == "Bytes" {
			v := s.freshValue(st, fr.name(x), x.Type())
			s.assume(st, fmt.Sprintf("(and (not (bnil %s)) (= (slen (cont %s)) %s))", v.T, v.T, ln.T))
			fr.vals[x] = v
			return
		}
		arr := s.allocRef(st, fr.name(x)+".arr")
		es := SortOf(st0.Elem())
		ms := "(Array Int " + mapSortOfElem(es) + ")"
		name := ElemMapName(st0.Elem())
		m := s.getMap(st, name, ms)
		s.setMap(st, name, ms, fmt.Sprintf("(store %s %s %s)", m, arr, s.constArray("Int", es)))
		s.assume(st, fmt.Sprintf("(>= %s 0)", ln.T))
		fr.vals[x] = TV{T: fmt.Sprintf("(mk-slice %s %s)", arr, ln.T), S: "Slice", GT: x.Type()}
	case *ssa.MakeMap:
		r := s.allocRef(st, fr.name(x))
		mt := x.Type().Underlying().(*types.Map)
		dn, vn := MapMapNames(mt)
		ks, vs := SortOf(mt.Key()), SortOf(mt.Elem())
		dms := "(Array Int (Array " + ks + " Bool))"
		vms := "(Array Int (Array " + ks + " " + vs + "))"
		d := s.getMap(st, dn, dms)
		s.getMap(st, vn, vms)
		s.setMap(st, dn, dms, fmt.Sprintf("(store %s %s ((as const (Array %s Bool)) false))", d, r, ks))
		fr.vals[x] = TV{T: r, S: "Int", GT: x.Type()}
	case *ssa.MakeChan:
		fr.vals[x] = TV{T: s.allocRef(st, fr.name(x)), S: "Int", GT: x.Type()}
	case *ssa.MakeClosure:
		r := s.allocRef(st, fr.name(x))
		c := &closure{fn: x.Fn.(*ssa.Function)}
		for _, b := range x.Bindings {
			c.bindings = append(c.bindings, fr.val(b, st))
			c.bindLocs = append(c.bindLocs, fr.locs[b])
		}
		fr.clos[x] = c
		fr.vals[x] = TV{T: r, S: "Int", GT: x.Type()}
	case *ssa.Lookup:
		fr.lookup(x, st)
	case *ssa.MapUpdate:
		m := fr.val(x.Map, st)
		k := fr.val(x.Key, st)
		v := fr.val(x.Value, st)
		if n := mapFieldName(x.Map); n != "" {
			fr.pseudoAt("mapwrite."+n, x, []TV{m, k, v}, st)
		}
		mt := x.Map.Type().Underlying().(*types.Map)
		if ck, ok := fr.canonKey(k, mt.Key(), st); ok {
			k = TV{T: ck, S: "Int", GT: mt.Key()}
		} else if _, isStruct := mt.Key().Underlying().(*types.Struct); isStruct {
			s.note("%s: update of a map keyed by %s that cannot be flattened: stored under the value's reference", fk, mt.Key().String())
		}
		dn, vn := MapMapNames(mt)
		ks, vs := SortOf(mt.Key()), SortOf(mt.Elem())
		dms := "(Array Int (Array " + ks + " Bool))"
		vms := "(Array Int (Array " + ks + " " + vs + "))"
		d := s.getMap(st, dn, dms)
		vv := s.getMap(st, vn, vms)
		s.assume(st, fmt.Sprintf("(not (= %s 0))", m.T)) // assignment to nil map panics
		v = fr.coerce(v, vs)
		s.setMap(st, dn, dms, fmt.Sprintf("(store %s %s (store (select %s %s) %s true))", d, m.T, d, m.T, k.T))
		s.setMap(st, vn, vms, fmt.Sprintf("(store %s %s (store (select %s %s) %s %s))", vv, m.T, vv, m.T, k.T, v.T))
	case *ssa.Range:
		v := fr.val(x.X, st)
		fr.vals[x] = TV{T: v.T, S: v.S, GT: x.X.Type()}
		if n := mapFieldName(x.X); n != "" {
			fr.pseudoAt("mapread."+n, x, []TV{v}, st)
		}
		if mt, isMap := x.X.Type().Underlying().(*types.Map); isMap {
			ks := SortOf(mt.Key())
			rn := RangeVarName(x)
			rs := "(Array " + ks + " Bool)"
			s.getMap(st, rn, rs)
			st.Maps[rn] = fmt.Sprintf("((as const %s) false)", rs)
		}
	case *ssa.Next:
		fr.next(x, st)
	case *ssa.Select:
		s.note("%s: select statement abstracted (nondeterministic choice, fresh received values)", fk)
		fr.vals[x] = s.freshValue(st, fr.name(x), x.Type())
	case *ssa.Send:
		s.note("%s: channel send abstracted (no effect)", fk)
	case *ssa.SliceToArrayPointer, *ssa.MultiConvert:
		s.note("%s: %T abstracted", fk, in)
		if v, ok := in.(ssa.Value); ok {
			fr.vals[v] = s.freshValue(st, fr.name(v), v.Type())
		}
	default:
		s.fail("%s: unsupported instruction %T", fk, in)
	}
}

func (fr *frame) box(v TV, st *State) string {
	s := fr.s
	if v.S == "Int" {
		return v.T
	}
	if v.S == "Iface" {
		return "(ival " + v.T + ")"
	}
	tag := sortTag(v.S)
	b := s.declareFun("box:"+tag, []string{v.S}, "Int")
	u := s.declareFun("unbox:"+tag, []string{"Int"}, v.S)
	// boxing is injective (unbox . box = id) and yields a non-negative payload: once per sort
	if !s.declared["boxax:"+tag] {
		s.declared["boxax:"+tag] = true
		s.emit(fmt.Sprintf("(assert (forall ((bx %s)) (! (and (= (%s (%s bx)) bx) (>= (%s bx) 0)) :pattern ((%s bx)))))", v.S, u, b, b, b))
	}
	return fmt.Sprintf("(%s %s)", b, v.T)
}

func (fr *frame) unbox(payload string, t types.Type) TV {
	so := SortOf(t)
	if so == "Int" {
		return TV{T: payload, S: so, GT: t}
	}
	tag := sortTag(so)
	fr.s.declareFun("box:"+tag, []string{so}, "Int")
	u := fr.s.declareFun("unbox:"+tag, []string{"Int"}, so)
	return TV{T: fmt.Sprintf("(%s %s)", u, payload), S: so, GT: t}
}

func (fr *frame) typeAssert(x *ssa.TypeAssert, st *State) {
	s := fr.s
	v := fr.val(x.X, st)
	_, toIface := x.AssertedType.Underlying().(*types.Interface)
	var ok string
	var res TV
	if toIface {
		// dynamic type implements the interface: unknown, but a nil interface never does
		okc := s.fresh(fr.name(x)+".ok", "Bool")
		s.assume(st, fmt.Sprintf("(=> %s (not (= (ityp %s) 0)))", okc, v.T))
		ok = okc
		res = TV{T: v.T, S: "Iface", GT: x.AssertedType}
	} else {
		ok = fmt.Sprintf("(= (ityp %s) %s)", v.T, s.typeID(x.AssertedType))
		res = fr.unbox("(ival "+v.T+")", x.AssertedType)
	}
	if x.CommaOk {
		z := zeroOf(res.S)
		val := TV{T: s.define(fr.name(x), res.S, fmt.Sprintf("(ite %s %s %s)", ok, res.T, z)), S: res.S, GT: x.AssertedType}
		fr.vals[x] = TV{S: "Tuple", Tup: []TV{val, {T: ok, S: "Bool"}}}
		return
	}
	s.assume(st, ok) // failed assertion panics
	fr.vals[x] = res
}

func (fr *frame) unop(x *ssa.UnOp, st *State) {
	s := fr.s
	switch x.Op {
	case token.MUL:
		l := fr.locOf(x.X, st)
		if l.kind == locCell || l.kind == locField {
			if _, isG := x.X.(*ssa.Global); !isG {
				if l.kind == locCell {
					s.assume(st, fmt.Sprintf("(not (= %s 0))", l.base))
				}
			}
		}
		fr.vals[x] = fr.load(st, l)
		if c, ok := fr.clos[x.X]; ok {
			fr.clos[x] = c
		}
	case token.NOT:
		v := fr.val(x.X, st)
		fr.vals[x] = TV{T: mkNot(v.T), S: "Bool", GT: x.Type()}
	case token.SUB:
		v := fr.val(x.X, st)
		fr.vals[x] = TV{T: fmt.Sprintf("(- %s)", v.T), S: v.S, GT: x.Type()}
	case token.ARROW:
		s.note("%s: channel receive abstracted (fresh value)", FuncKey(fr.fn))
		fr.vals[x] = s.freshValue(st, fr.name(x), x.Type())
	default:
		s.note("%s: unary %s abstracted", FuncKey(fr.fn), x.Op)
		fr.vals[x] = s.freshValue(st, fr.name(x), x.Type())
	}
}

func isUnsigned(t types.Type) bool {
	b, ok := t.Underlying().(*types.Basic)
	return ok && b.Info()&types.IsUnsigned != 0
}

func (fr *frame) binop(op token.Token, a, b TV, rt types.Type, st *State) TV {
	s := fr.s
	so := SortOf(rt)
	mk := func(t string) TV { return TV{T: t, S: so, GT: rt} }
	switch a.S {
	case "Int":
		if b.S == "Real" {
			a = fr.coerce(a, "Real")
			return fr.binop(op, a, b, rt, st)
		}
		switch op {
		case token.ADD:
			return mk(fmt.Sprintf("(+ %s %s)", a.T, b.T))
		case token.SUB:
			if isUnsigned(rt) {
				s.note("%s: unsigned subtraction treated as mathematical", FuncKey(fr.fn))
			}
			return mk(fmt.Sprintf("(- %s %s)", a.T, b.T))
		case token.MUL:
			return mk(fmt.Sprintf("(* %s %s)", a.T, b.T))
		case token.QUO:
			s.assume(st, fmt.Sprintf("(not (= %s 0))", b.T)) // division by zero panics
			return mk(fmt.Sprintf("(godiv %s %s)", a.T, b.T))
		case token.REM:
			s.assume(st, fmt.Sprintf("(not (= %s 0))", b.T))
			return mk(fmt.Sprintf("(gomod %s %s)", a.T, b.T))
		case token.SHL:
			if n, err := strconv.Atoi(b.T); err == nil && n >= 0 && n < 63 {
				return mk(fmt.Sprintf("(* %s %d)", a.T, int64(1)<<uint(n)))
			}
		case token.SHR:
			if n, err := strconv.Atoi(b.T); err == nil && n >= 0 && n < 63 {
				// arithmetic shift = floor division
				return mk(fmt.Sprintf("(div %s %d)", a.T, int64(1)<<uint(n)))
			}
		case token.EQL:
			return mk(fmt.Sprintf("(= %s %s)", a.T, b.T))
		case token.NEQ:
			return mk(fmt.Sprintf("(not (= %s %s))", a.T, b.T))
		case token.LSS:
			return mk(fmt.Sprintf("(< %s %s)", a.T, b.T))
		case token.LEQ:
			return mk(fmt.Sprintf("(<= %s %s)", a.T, b.T))
		case token.GTR:
			return mk(fmt.Sprintf("(> %s %s)", a.T, b.T))
		case token.GEQ:
			return mk(fmt.Sprintf("(>= %s %s)", a.T, b.T))
		}
		// bit operations: uninterpreted but functional
		f := s.declareFun("bitop:"+op.String(), []string{"Int", "Int"}, "Int")
		s.note("%s: integer operator %s uninterpreted", FuncKey(fr.fn), op)
		return mk(fmt.Sprintf("(%s %s %s)", f, a.T, b.T))
	case "Real":
		b = fr.coerce(b, "Real")
		switch op {
		case token.ADD:
			return mk(fmt.Sprintf("(+ %s %s)", a.T, b.T))
		case token.SUB:
			return mk(fmt.Sprintf("(- %s %s)", a.T, b.T))
		case token.MUL:
			return mk(fmt.Sprintf("(* %s %s)", a.T, b.T))
		case token.QUO:
			return mk(fmt.Sprintf("(/ %s %s)", a.T, b.T))
		case token.EQL:
			return mk(fmt.Sprintf("(= %s %s)", a.T, b.T))
		case token.NEQ:
			return mk(fmt.Sprintf("(not (= %s %s))", a.T, b.T))
		case token.LSS:
			return mk(fmt.Sprintf("(< %s %s)", a.T, b.T))
		case token.LEQ:
			return mk(fmt.Sprintf("(<= %s %s)", a.T, b.T))
		case token.GTR:
			return mk(fmt.Sprintf("(> %s %s)", a.T, b.T))
		case token.GEQ:
			return mk(fmt.Sprintf("(>= %s %s)", a.T, b.T))
		}
	case "Bool":
		switch op {
		case token.EQL:
			return mk(fmt.Sprintf("(= %s %s)", a.T, b.T))
		case token.NEQ:
			return mk(fmt.Sprintf("(not (= %s %s))", a.T, b.T))
		case token.AND, token.LAND:
			return mk(mkAnd([]string{a.T, b.T}))
		case token.OR, token.LOR:
			return mk(mkOr([]string{a.T, b.T}))
		}
	case "Str":
		switch op {
		case token.ADD:
			if a.Lit != nil && b.Lit != nil {
				lit := *a.Lit + *b.Lit
				return TV{T: s.strConst(lit), S: "Str", GT: rt, Lit: &lit}
			}
			t := s.define("cat", "Str", fmt.Sprintf("(sconcat %s %s)", a.T, b.T))
			s.assume(st, fmt.Sprintf("(= (slen %s) (+ (slen %s) (slen %s)))", t, a.T, b.T))
			return TV{T: t, S: "Str", GT: rt}
		case token.EQL:
			return mk(fmt.Sprintf("(= %s %s)", a.T, b.T))
		case token.NEQ:
			return mk(fmt.Sprintf("(not (= %s %s))", a.T, b.T))
		case token.LSS:
			return mk(fmt.Sprintf("(slt %s %s)", a.T, b.T))
		case token.GTR:
			return mk(fmt.Sprintf("(slt %s %s)", b.T, a.T))
		case token.LEQ:
			return mk(fmt.Sprintf("(not (slt %s %s))", b.T, a.T))
		case token.GEQ:
			return mk(fmt.Sprintf("(not (slt %s %s))", a.T, b.T))
		}
	case "Bytes":
		// only comparison with nil is legal Go
		switch op {
		case token.EQL:
			return mk(fmt.Sprintf("(bnil %s)", pickNonNil(a, b)))
		case token.NEQ:
			return mk(fmt.Sprintf("(not (bnil %s))", pickNonNil(a, b)))
		}
	case "Slice":
		switch op {
		case token.EQL:
			return mk(fmt.Sprintf("(= (sl-arr %s) 0)", pickNonNilS(a, b)))
		case token.NEQ:
			return mk(fmt.Sprintf("(not (= (sl-arr %s) 0))", pickNonNilS(a, b)))
		}
	case "Iface":
		bb := b
		if b.S != "Iface" {
			bb = TV{T: fmt.Sprintf("(mk-iface %s %s)", s.typeID(b.GT), fr.box(b, st)), S: "Iface"}
		}
		switch op {
		case token.EQL:
			return mk(fmt.Sprintf("(= %s %s)", a.T, bb.T))
		case token.NEQ:
			return mk(fmt.Sprintf("(not (= %s %s))", a.T, bb.T))
		}
	}
	s.note("%s: binary %s on %s abstracted", FuncKey(fr.fn), op, a.S)
	return s.freshValue(st, "binop", rt)
}

func pickNonNil(a, b TV) string {
	if a.T == "bytes_nil" {
		return b.T
	}
	return a.T
}
func pickNonNilS(a, b TV) string {
	if a.T == "slice_nil" {
		return b.T
	}
	return a.T
}

func (fr *frame) convert(x *ssa.Convert, st *State) {
	s := fr.s
	v := fr.val(x.X, st)
	from, to := v.S, SortOf(x.Type())
	switch {
	case from == to:
		if from == "Int" {
			fb, _ := x.X.Type().Underlying().(*types.Basic)
			tb, _ := x.Type().Underlying().(*types.Basic)
			if fb != nil && tb != nil && narrowing(fb, tb) {
				s.note("%s: integer conversion %s -> %s treated as identity", FuncKey(fr.fn), fb.Name(), tb.Name())
			}
		}
		fr.vals[x] = TV{T: v.T, S: to, GT: x.Type()}
	case from == "Int" && to == "Real":
		fr.vals[x] = TV{T: "(to_real " + v.T + ")", S: to, GT: x.Type()}
	case from == "Real" && to == "Int":
		// Go truncates toward zero
		fr.vals[x] = TV{T: fmt.Sprintf("(ite (>= %s 0.0) (to_int %s) (- (to_int (- %s))))", v.T, v.T, v.T), S: to, GT: x.Type()}
	case from == "Bytes" && to == "Str":
		fr.vals[x] = TV{T: "(cont " + v.T + ")", S: to, GT: x.Type(), Lit: v.Lit}
	case from == "Str" && to == "Bytes":
		fr.vals[x] = TV{T: "(mk-bytes false " + v.T + ")", S: to, GT: x.Type(), Lit: v.Lit}
	default:
		f := s.declareFun("conv:"+sortTag(from)+":"+sortTag(to), []string{from}, to)
		nv := TV{T: s.define(fr.name(x), to, fmt.Sprintf("(%s %s)", f, v.T)), S: to, GT: x.Type()}
		s.assumeType(st, nv)
		fr.vals[x] = nv
	}
}

func narrowing(from, to *types.Basic) bool {
	size := func(b *types.Basic) int {
		switch b.Kind() {
		case types.Int8, types.Uint8:
			return 8
		case types.Int16, types.Uint16:
			return 16
		case types.Int32, types.Uint32:
			return 32
		}
		return 64
	}
	if size(to) < size(from) {
		return true
	}
	return (from.Info()&types.IsUnsigned != 0) != (to.Info()&types.IsUnsigned != 0)
}

func (fr *frame) sliceOp(x *ssa.Slice, st *State) {
	s := fr.s
	v := fr.val(x.X, st)
	var lo, hi string
	if x.Low != nil {
		lo = fr.val(x.Low, st).T
	}
	if x.High != nil {
		hi = fr.val(x.High, st).T
	}
	switch v.S {
	case "Str", "Bytes":
		str := v.T
		if v.S == "Bytes" {
			str = "(cont " + v.T + ")"
		}
		l := lo
		if l == "" {
			l = "0"
		}
		h := hi
		if h == "" {
			h = "(slen " + str + ")"
		}
		s.assume(st, fmt.Sprintf("(and (<= 0 %s) (<= %s %s))", l, l, h))
		var sub string
		if lo == "" && hi == "" {
			sub = str
		} else {
			sub = s.define("sub", "Str", fmt.Sprintf("(ssub %s %s %s)", str, l, h))
			s.assume(st, fmt.Sprintf("(= (slen %s) (- %s %s))", sub, h, l))
			s.assume(st, fmt.Sprintf("(=> (= %s %s) (= %s str_empty))", h, l, sub))
			s.assume(st, fmt.Sprintf("(=> (and (= %s 0) (= %s (slen %s))) (= %s %s))", l, h, str, sub, str))
		}
		if v.S == "Bytes" {
			fr.vals[x] = TV{T: s.define(fr.name(x), "Bytes", fmt.Sprintf("(mk-bytes (bnil %s) %s)", v.T, sub)), S: "Bytes", GT: x.Type()}
		} else {
			fr.vals[x] = TV{T: sub, S: "Str", GT: x.Type()}
		}
	case "Slice":
		st0, _ := x.Type().Underlying().(*types.Slice)
		if lo == "" || lo == "0" {
			h := hi
			if h == "" {
				h = "(sl-len " + v.T + ")"
			}
			s.assume(st, fmt.Sprintf("(>= %s 0)", h))
			fr.vals[x] = TV{T: s.define(fr.name(x), "Slice", fmt.Sprintf("(mk-slice (sl-arr %s) %s)", v.T, h)), S: "Slice", GT: x.Type()}
			return
		}
		// s[a:b] with a != 0: copy semantics (aliasing with the parent slice not modelled)
		s.note("%s: slicing with non-zero low bound copies (aliasing with parent not modelled)", FuncKey(fr.fn))
		h := hi
		if h == "" {
			h = "(sl-len " + v.T + ")"
		}
		arr := s.allocRef(st, fr.name(x)+".arr")
		es := SortOf(st0.Elem())
		ms := "(Array Int " + mapSortOfElem(es) + ")"
		name := ElemMapName(st0.Elem())
		m := s.getMap(st, name, ms)
		content := s.fresh(fr.name(x)+".content", mapSortOfElem(es))
		s.assume(st, fmt.Sprintf("(forall ((i Int)) (! (=> (and (<= 0 i) (< i (- %s %s))) (= (select %s i) (select (select %s (sl-arr %s)) (+ i %s)))) :pattern ((select %s i))))", h, lo, content, m, v.T, lo, content))
		s.setMap(st, name, ms, fmt.Sprintf("(store %s %s %s)", m, arr, content))
		s.assume(st, fmt.Sprintf("(and (<= 0 %s) (<= %s %s))", lo, lo, h))
		fr.vals[x] = TV{T: s.define(fr.name(x), "Slice", fmt.Sprintf("(mk-slice %s (- %s %s))", arr, h, lo)), S: "Slice", GT: x.Type()}
	default:
		// byte arrays: []byte has value semantics here
		if SortOf(x.Type()) == "Bytes" {
			if pt, ok := x.X.Type().Underlying().(*types.Pointer); ok {
				if at, ok := pt.Elem().Underlying().(*types.Array); ok && at.Len() == 0 {
					fr.vals[x] = TV{T: "(mk-bytes false str_empty)", S: "Bytes", GT: x.Type()}
					return
				}
			}
			s.note("%s: slice of a byte array: contents abstracted", FuncKey(fr.fn))
			nv := s.freshValue(st, fr.name(x), x.Type())
			s.assume(st, fmt.Sprintf("(not (bnil %s))", nv.T))
			fr.vals[x] = nv
			return
		}
		// pointer to array: the slice shares the array object
		if pt, ok := x.X.Type().Underlying().(*types.Pointer); ok {
			if at, ok := pt.Elem().Underlying().(*types.Array); ok && (lo == "" || lo == "0") {
				h := hi
				if h == "" {
					h = strconv.FormatInt(at.Len(), 10)
					fr.arrLen[x] = int(at.Len())
				}
				fr.vals[x] = TV{T: s.define(fr.name(x), "Slice", fmt.Sprintf("(mk-slice %s %s)", v.T, h)), S: "Slice", GT: x.Type()}
				return
			}
		}
		s.note("%s: slice of %s abstracted", FuncKey(fr.fn), x.X.Type())
		fr.vals[x] = s.freshValue(st, fr.name(x), x.Type())
	}
}

// canonKey: Go compares struct map keys field by field; struct VALUES are references in
// this model, so a struct key is replaced by an uninterpreted function of its (flat,
// non-struct) field values. Equal fields give the same key (congruence); the function is
// not assumed injective, which only adds behaviours (a lookup may hit where Go misses).
// Returns ok=false for keys it cannot flatten (nested structs, arrays).
func (fr *frame) canonKey(k TV, kt types.Type, st *State) (string, bool) {
	stt, ok := kt.Underlying().(*types.Struct)
	if !ok {
		return "", false
	}
	s := fr.s
	var sorts, args []string
	for i := 0; i < stt.NumFields(); i++ {
		ft := stt.Field(i).Type()
		switch ft.Underlying().(type) {
		case *types.Struct, *types.Array:
			return "", false
		}
		name, _ := FieldMapName(kt, i)
		so := SortOf(ft)
		m := s.getMap(st, name, mapSortOfElem(so))
		sorts = append(sorts, so)
		args = append(args, fmt.Sprintf("(select %s %s)", m, k.T))
	}
	f := s.declareFun("canon:"+typeShort(kt), sorts, "Int")
	return fmt.Sprintf("(%s %s)", f, strings.Join(args, " ")), true
}

func (fr *frame) lookup(x *ssa.Lookup, st *State) {
	s := fr.s
	m := fr.val(x.X, st)
	k := fr.val(x.Index, st)
	if n := mapFieldName(x.X); n != "" {
		fr.pseudoAt("mapread."+n, x, []TV{m, k}, st)
	}
	if m.S == "Str" {
		fr.vals[x] = TV{T: fmt.Sprintf("(sat %s %s)", m.T, k.T), S: "Int", GT: x.Type()}
		return
	}
	mt := x.X.Type().Underlying().(*types.Map)
	if ck, ok := fr.canonKey(k, mt.Key(), st); ok {
		k = TV{T: ck, S: "Int", GT: mt.Key()}
	}
	switch mt.Key().Underlying().(type) {
	case *types.Struct, *types.Array:
		if strings.HasPrefix(k.T, "(|canon:") {
			break
		}
		// composite keys compare structurally in Go but are references in this model:
		// the lookup is abstracted to an arbitrary answer (sound over-approximation)
		s.note("%s: lookup in a map keyed by %s abstracted (arbitrary result)", FuncKey(fr.fn), mt.Key().String())
		val := s.freshValue(st, fr.name(x), mt.Elem())
		if x.CommaOk {
			fr.vals[x] = TV{S: "Tuple", Tup: []TV{val, {T: s.fresh(fr.name(x)+".ok", "Bool"), S: "Bool"}}}
		} else {
			fr.vals[x] = val
		}
		return
	}
	dn, vn := MapMapNames(mt)
	ks, vs := SortOf(mt.Key()), SortOf(mt.Elem())
	d := s.getMap(st, dn, "(Array Int (Array "+ks+" Bool))")
	vv := s.getMap(st, vn, "(Array Int (Array "+ks+" "+vs+"))")
	in := fmt.Sprintf("(and (not (= %s 0)) (select (select %s %s) %s))", m.T, d, m.T, k.T)
	val := TV{T: s.define(fr.name(x), vs, fmt.Sprintf("(ite %s (select (select %s %s) %s) %s)", in, vv, m.T, k.T, zeroOf(vs))), S: vs, GT: mt.Elem()}
	s.assumeType(st, val)
	if x.CommaOk {
		fr.vals[x] = TV{S: "Tuple", Tup: []TV{val, {T: in, S: "Bool"}}}
	} else {
		fr.vals[x] = val
	}
}

func (fr *frame) next(x *ssa.Next, st *State) {
	s := fr.s
	it := fr.val(x.Iter, st)
	tup := x.Type().(*types.Tuple)
	ok := TV{T: s.fresh(fr.name(x)+".ok", "Bool"), S: "Bool"}
	k := s.freshValue(st, fr.name(x)+".k", tup.At(1).Type())
	v := s.freshValue(st, fr.name(x)+".v", tup.At(2).Type())
	if !x.IsString {
		if mt, isMap := it.GT.Underlying().(*types.Map); isMap {
			dn, vn := MapMapNames(mt)
			ks, vs := SortOf(mt.Key()), SortOf(mt.Elem())
			// the key component may be unused in the source (invalid type): use the map's key sort
			if k.S != ks {
				k = TV{T: s.fresh(fr.name(x)+".key", ks), S: ks, GT: mt.Key()}
			}
			d := s.getMap(st, dn, "(Array Int (Array "+ks+" Bool))")
			vv := s.getMap(st, vn, "(Array Int (Array "+ks+" "+vs+"))")
			// ghost set of keys already yielded by this iteration
			rn := RangeVarName(x.Iter.(*ssa.Range))
			rs := "(Array " + ks + " Bool)"
			vis := s.getMap(st, rn, rs)
			// a declared constant (not a macro) so that it can appear in the quantifier pattern
			dom := s.fresh(fr.name(x)+".dom", "(Array "+ks+" Bool)")
			s.emit(fmt.Sprintf("(assert (= %s (select %s %s)))", dom, d, it.T))
			cond := fmt.Sprintf("(=> %s (and (not (= %s 0)) (select %s %s) (not (select %s %s))", ok.T, it.T, dom, k.T, vis, k.T)
			if v.S == vs {
				cond += fmt.Sprintf(" (= %s (select (select %s %s) %s))", v.T, vv, it.T, k.T)
			}
			cond += "))"
			s.assume(st, cond)
			// exhausted: every key of the map has been yielded
			s.assume(st, fmt.Sprintf("(=> (not %s) (forall ((kk %s)) (! (=> (and (not (= %s 0)) (select %s kk)) (select %s kk)) :pattern ((select %s kk)))))", ok.T, ks, it.T, dom, vis, dom))
			st.Maps[rn] = s.define(rn, rs, fmt.Sprintf("(ite %s (store %s %s true) %s)", ok.T, vis, k.T, vis))
			s.note("%s: range over map: arbitrary iteration order; the map is assumed not to be modified by the loop body in a way that affects iteration", FuncKey(fr.fn))
		}
	} else {
		s.note("%s: range over string abstracted", FuncKey(fr.fn))
	}
	fr.vals[x] = TV{S: "Tuple", Tup: []TV{ok, k, v}}
}

// RangeVarName is the state variable holding the set of keys a map iteration has yielded.
func RangeVarName(r *ssa.Range) string {
	return "R:" + FuncKey(r.Parent()) + "." + r.Name()
}

// ghostDefaults initialises per-object ghost maps at a fresh reference.
func (fr *frame) ghostDefaults(st *State, ref string) {
	s := fr.s
	var names []string
	for n, g := range s.P.Specs.Ghost {
		if g.Default != "" {
			names = append(names, n)
		}
	}
	sort.Strings(names)
	for _, n := range names {
		g := s.P.Specs.Ghost[n]
		so, _ := s.P.specType(g.Sort)
		e, err := ParseExpr(g.Default)
		if err != nil {
			s.fail("ghost default of %s: %v", n, err)
			return
		}
		env := s.newEnv(nil)
		env.st, env.old = st, st
		d := s.eval(env, e)
		cur := s.getMap(st, "H:"+n, so)
		st.Maps["H:"+n] = s.define("H:"+n, so, fmt.Sprintf("(store %s %s %s)", cur, ref, d.T))
	}
}

// mapFieldName: the struct field a map operand was loaded from ("" if unknown).
func mapFieldName(v ssa.Value) string {
	if _, ok := v.Type().Underlying().(*types.Map); !ok {
		return ""
	}
	u, ok := v.(*ssa.UnOp)
	if !ok {
		return ""
	}
	fa, ok := u.X.(*ssa.FieldAddr)
	if !ok {
		return ""
	}
	pt, ok := fa.X.Type().Underlying().(*types.Pointer)
	if !ok {
		return ""
	}
	st, ok := pt.Elem().Underlying().(*types.Struct)
	if !ok {
		return ""
	}
	return st.Field(fa.Field).Name()
}

// pseudoAt lets `at mapread.<field>` / `at mapwrite.<field>` clauses attach
// assertions to map accesses (lock discipline).
func (fr *frame) pseudoAt(key string, site ssa.Instruction, args []TV, st *State) {
	s := fr.s
	if fr.env0 == nil || s.FC == nil {
		return
	}
	// only in the function under contract itself and in its closures (not in inlined callees)
	if !fr.isTop && !fr.transparent && fr.fn.Parent() == nil {
		return
	}
	for _, at := range s.FC.Ats {
		if at.Callee != key {
			continue
		}
		env := fr.env0.child()
		env.st = st
		for i, a := range args {
			env.vars["$"+strconv.Itoa(i)] = a
		}
		blk := site.Block()
		env.localFirst = fr.transparent
		env.local = func(name string) (TV, bool) {
			if fr.transparent {
				return fr.resolveName(name, blk, site, st)
			}
			return fr.lookupLocalBefore(name, blk, site, st)
		}
		prevErr := s.Err
		g := s.evalBool(env, at.C.E)
		src := at.C.Src
		if prevErr == nil && s.Err != nil && strings.Contains(s.Err.Error(), "unknown identifier") {
			// the assertion names a variable that has no value yet at this write
			src = src + "   [" + s.Err.Error() + ": not assigned before this write]"
			s.Err = nil
			g = "false"
		}
		top := fr
		for top.parent != nil {
			top = top.parent
		}
		top.atCount[at.C.Label]++
		s.addObl(&Obligation{Name: fmt.Sprintf("%s#at:%s:%s@%d", shortKey(FuncKey(s.Top)), at.Callee, at.C.Label, top.atCount[at.C.Label]), Props: fr.propsOf(at.C), Kind: "call-site-assert", Label: at.C.Label, Goal: fmt.Sprintf("(=> %s %s)", st.Guard, g), Src: src})
		top.atHit[at.C.Label] = true
	}
}
