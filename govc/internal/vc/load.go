package vc

// Loading /repo packages into go/ssa, indexing functions by contract key, and
// the type-based modifies-set (mod-ref) analysis that gives every repo function
// an over-approximation of the heap maps it may write.

import (
	"crypto/sha256"
	"fmt"
	"go/token"
	"go/types"
	"os"
	"path/filepath"
	"sort"
	"strings"

	"golang.org/x/tools/go/packages"
	"golang.org/x/tools/go/ssa"
	"golang.org/x/tools/go/ssa/ssautil"
)

const ModulePath = "github.com/xuperchain/xupercore"

type Program struct {
	Fset     *token.FileSet
	Prog     *ssa.Program
	Pkgs     []*packages.Package
	SSAPkgs  []*ssa.Package
	ByKey    map[string]*ssa.Function
	RepoFns  []*ssa.Function
	Mods     map[*ssa.Function]map[string]bool
	Specs    *Specs
	RepoDir  string
	impls    map[string][]*ssa.Function // interface method key -> implementing repo functions
	allNamed []*types.Named
	SrcHash  map[string]string
	Recorded map[string]*FuncNames // names the contracts were written against (govc names)
	aliases  map[*ssa.Function]map[string][]string
	knownCallee map[string]bool
}

func IsRepoPath(p string) bool {
	return p == ModulePath || strings.HasPrefix(p, ModulePath+"/")
}

// Load loads the given package patterns (relative to repoDir) with the build tag.
func Load(repoDir string, patterns []string, overlay map[string][]byte) (*Program, error) {
	cfg := &packages.Config{
		Mode:       packages.LoadAllSyntax,
		Dir:        repoDir,
		BuildFlags: []string{"-tags=verif", "-mod=mod"},
		Env:        append(os.Environ(), "GOFLAGS=-mod=mod", "GOPROXY=off", "GOSUMDB=off", "GOTOOLCHAIN=local"),
		Overlay:    overlay,
	}
	pkgs, err := packages.Load(cfg, patterns...)
	if err != nil {
		return nil, err
	}
	var errs []string
	packages.Visit(pkgs, nil, func(p *packages.Package) {
		if !IsRepoPath(p.PkgPath) {
			return
		}
		for _, e := range p.Errors {
			errs = append(errs, e.Error())
		}
	})
	if len(errs) > 0 {
		return nil, fmt.Errorf("package load errors: %s", strings.Join(errs, "; "))
	}
	prog, spkgs := ssautil.AllPackages(pkgs, ssa.GlobalDebug)
	P := &Program{Fset: prog.Fset, Prog: prog, Pkgs: pkgs, SSAPkgs: spkgs, ByKey: map[string]*ssa.Function{}, Mods: map[*ssa.Function]map[string]bool{}, RepoDir: repoDir, impls: map[string][]*ssa.Function{}, SrcHash: map[string]string{}}
	for _, sp := range prog.AllPackages() {
		if IsRepoPath(sp.Pkg.Path()) {
			sp.Build()
		}
	}
	for _, sp := range prog.AllPackages() {
		if !IsRepoPath(sp.Pkg.Path()) {
			continue
		}
		for _, m := range sp.Members {
			switch m := m.(type) {
			case *ssa.Function:
				P.addFn(m)
			case *ssa.Type:
				if n, ok := m.Type().(*types.Named); ok {
					P.allNamed = append(P.allNamed, n)
					for _, t := range []types.Type{n, types.NewPointer(n)} {
						ms := prog.MethodSets.MethodSet(t)
						for i := 0; i < ms.Len(); i++ {
							if fn := prog.MethodValue(ms.At(i)); fn != nil && fn.Pkg == sp {
								P.addFn(fn)
							}
						}
					}
				}
			}
		}
	}
	sort.Slice(P.RepoFns, func(i, j int) bool { return FuncKey(P.RepoFns[i]) < FuncKey(P.RepoFns[j]) })
	return P, nil
}

func (P *Program) addFn(fn *ssa.Function) {
	if fn == nil || fn.Blocks == nil {
		return
	}
	k := FuncKey(fn)
	if _, ok := P.ByKey[k]; ok {
		return
	}
	if fn.Synthetic != "" && fn.Parent() == nil {
		return
	}
	P.ByKey[k] = fn
	P.RepoFns = append(P.RepoFns, fn)
	for _, a := range fn.AnonFuncs {
		P.addFn(a)
	}
}

// FuncKey is the contract key of a function: pkgpath.Func, pkgpath.Type.Method,
// and parentKey$N for anonymous functions.
func FuncKey(fn *ssa.Function) string {
	if fn.Parent() != nil {
		name := fn.Name()
		if i := strings.LastIndex(name, "$"); i >= 0 {
			return FuncKey(fn.Parent()) + name[i:]
		}
		return FuncKey(fn.Parent()) + "$" + name
	}
	if recv := fn.Signature.Recv(); recv != nil {
		t := recv.Type()
		if p, ok := t.(*types.Pointer); ok {
			t = p.Elem()
		}
		if n, ok := t.(*types.Named); ok {
			pp := ""
			if n.Obj().Pkg() != nil {
				pp = n.Obj().Pkg().Path()
			}
			return pp + "." + n.Obj().Name() + "." + fn.Name()
		}
		return "?." + fn.Name()
	}
	if fn.Pkg != nil {
		return fn.Pkg.Pkg.Path() + "." + fn.Name()
	}
	if fn.Object() != nil && fn.Object().Pkg() != nil {
		return fn.Object().Pkg().Path() + "." + fn.Name()
	}
	return fn.Name()
}

// CalleeKey returns the contract key of a static callee or interface method.
func IfaceMethodKey(recvT types.Type, m *types.Func) string {
	t := recvT
	// canonical key: the named interface that declares the method (embedded interfaces)
	if sig, ok := m.Type().(*types.Signature); ok && sig.Recv() != nil {
		if n := namedOf(sig.Recv().Type()); n != nil {
			t = n
		}
	}
	if n, ok := t.(*types.Named); ok && n.Obj().Pkg() != nil {
		return n.Obj().Pkg().Path() + "." + n.Obj().Name() + "." + m.Name()
	}
	if n, ok := t.(*types.Named); ok {
		return n.Obj().Name() + "." + m.Name() // e.g. error.Error
	}
	return "?." + m.Name()
}

// ---------------------------------------------------------------------------
// heap map names

func namedOf(t types.Type) *types.Named {
	for {
		switch x := t.(type) {
		case *types.Pointer:
			t = x.Elem()
		case *types.Named:
			return x
		default:
			return nil
		}
	}
}

func typeShort(t types.Type) string {
	if n := namedOf(t); n != nil {
		if n.Obj().Pkg() != nil {
			return n.Obj().Pkg().Path() + "." + n.Obj().Name()
		}
		return n.Obj().Name()
	}
	h := sha256.Sum256([]byte(t.String()))
	return fmt.Sprintf("anon%x", h[:4])
}

// FieldMapName names the heap map of a struct field.
func FieldMapName(structT types.Type, idx int) (string, types.Type) {
	st := structT
	if p, ok := st.Underlying().(*types.Pointer); ok {
		st = p.Elem()
	}
	s, ok := st.Underlying().(*types.Struct)
	if !ok {
		return "F:?", nil
	}
	f := s.Field(idx)
	return "F:" + typeShort(st) + "." + f.Name(), f.Type()
}

// SortOf maps a Go type to the SMT sort of its values.
func SortOf(t types.Type) string {
	switch u := t.Underlying().(type) {
	case *types.Basic:
		switch {
		case u.Info()&types.IsBoolean != 0:
			return "Bool"
		case u.Info()&types.IsInteger != 0:
			return "Int"
		case u.Info()&types.IsFloat != 0:
			return "Real"
		case u.Info()&types.IsString != 0:
			return "Str"
		case u.Kind() == types.UnsafePointer:
			return "Int"
		case u.Kind() == types.UntypedNil:
			return "Int"
		}
		return "Int"
	case *types.Slice:
		if b, ok := u.Elem().Underlying().(*types.Basic); ok && b.Kind() == types.Byte {
			return "Bytes"
		}
		return "Slice"
	case *types.Interface:
		return "Iface"
	case *types.Pointer, *types.Map, *types.Chan, *types.Signature:
		return "Int"
	case *types.Struct, *types.Array:
		return "Int" // value objects are references to immutable heap objects
	case *types.Tuple:
		return "Tuple"
	}
	return "Int"
}

func sortTag(s string) string {
	r := strings.NewReplacer("(", "", ")", "", " ", "_")
	return r.Replace(s)
}

func CellMapName(t types.Type) string { return "C:" + sortTag(SortOf(t)) }
func ElemMapName(elem types.Type) string {
	return "E:" + sortTag(SortOf(elem))
}
func MapMapNames(m *types.Map) (dom, val string) {
	k := sortTag(SortOf(m.Key()))
	v := sortTag(SortOf(m.Elem()))
	return "MD:" + k + ":" + v, "MV:" + k + ":" + v
}

// ---------------------------------------------------------------------------
// modifies-set analysis

const ModStar = "*"

func (P *Program) implementers(recvT types.Type, m *types.Func) []*ssa.Function {
	key := IfaceMethodKey(recvT, m) + "|" + m.Type().String()
	if r, ok := P.impls[key]; ok {
		return r
	}
	var res []*ssa.Function
	iface, _ := recvT.Underlying().(*types.Interface)
	if iface != nil {
		for _, n := range P.allNamed {
			if _, isI := n.Underlying().(*types.Interface); isI {
				continue
			}
			for _, t := range []types.Type{n, types.NewPointer(n)} {
				if !types.Implements(t, iface) {
					continue
				}
				sel := P.Prog.MethodSets.MethodSet(t).Lookup(m.Pkg(), m.Name())
				if sel == nil {
					continue
				}
				if fn := P.Prog.MethodValue(sel); fn != nil {
					res = append(res, fn)
				}
				break
			}
		}
	}
	P.impls[key] = res
	return res
}

func (P *Program) contractFor(key string) *FuncContract {
	if P.Specs == nil {
		return nil
	}
	if fc, ok := P.Specs.Funcs[key]; ok {
		return fc
	}
	// wildcard: pkg.Type.* covers every method of a type / interface
	if i := strings.LastIndex(key, "."); i > 0 {
		if fc, ok := P.Specs.Funcs[key[:i]+".*"]; ok {
			return fc
		}
	}
	return nil
}

func (P *Program) isEffectFree(pkgPath string) bool {
	if P.Specs == nil {
		return false
	}
	for _, p := range P.Specs.EffectFree {
		if pkgPath == p || strings.HasPrefix(pkgPath, p+"/") {
			return true
		}
	}
	return false
}

// allocEscapes reports whether the address of a local variable cell may reach
// code that can write it through a generic pointer. A non-escaping cell is only
// loaded, stored and captured by closures that themselves only load / store it.
func allocEscapes(v ssa.Value, depth int) bool {
	if depth > 4 {
		return true
	}
	refs := v.Referrers()
	if refs == nil {
		return true
	}
	for _, r := range *refs {
		switch x := r.(type) {
		case *ssa.DebugRef:
		case *ssa.UnOp:
			if x.X != v {
				return true
			}
		case *ssa.Store:
			if x.Addr != v || x.Val == v {
				return true
			}
		case *ssa.MakeClosure:
			fn := x.Fn.(*ssa.Function)
			for i, b := range x.Bindings {
				if b == v {
					if i >= len(fn.FreeVars) || allocEscapes(fn.FreeVars[i], depth+1) {
						return true
					}
				}
			}
		default:
			return true
		}
	}
	return false
}

// LocalCellName is the state-variable name of a non-escaping local cell.
func LocalCellName(a *ssa.Alloc) string {
	return "L:" + FuncKey(a.Parent()) + "." + a.Name()
}

// resolveFreeVar follows a closure's free variable to the Alloc it is bound to.
func resolveFreeVar(fv *ssa.FreeVar) *ssa.Alloc {
	fn := fv.Parent()
	par := fn.Parent()
	if par == nil {
		return nil
	}
	idx := -1
	for i, f := range fn.FreeVars {
		if f == fv {
			idx = i
		}
	}
	if idx < 0 {
		return nil
	}
	for _, b := range par.Blocks {
		for _, ins := range b.Instrs {
			mc, ok := ins.(*ssa.MakeClosure)
			if !ok || mc.Fn != fn || idx >= len(mc.Bindings) {
				continue
			}
			switch bv := mc.Bindings[idx].(type) {
			case *ssa.Alloc:
				return bv
			case *ssa.FreeVar:
				return resolveFreeVar(bv)
			}
			return nil
		}
	}
	return nil
}

func isScalarAlloc(a *ssa.Alloc) bool {
	et := a.Type().Underlying().(*types.Pointer).Elem()
	switch et.Underlying().(type) {
	case *types.Struct, *types.Array:
		return false
	}
	return true
}

func isLocalAllocBase(v ssa.Value) bool {
	for {
		switch x := v.(type) {
		case *ssa.Alloc:
			return true
		case *ssa.FieldAddr:
			v = x.X
		case *ssa.IndexAddr:
			// element of a local array
			if _, ok := x.X.Type().Underlying().(*types.Pointer); ok {
				v = x.X
				continue
			}
			return false
		default:
			return false
		}
	}
}

func storeTargets(addr ssa.Value, out map[string]bool) {
	switch a := addr.(type) {
	case *ssa.FieldAddr:
		if isLocalAllocBase(a.X) {
			return
		}
		name, ft := FieldMapName(a.X.Type().Underlying().(*types.Pointer).Elem(), a.Field)
		addStructOrField(name, ft, out)
	case *ssa.IndexAddr:
		switch xt := a.X.Type().Underlying().(type) {
		case *types.Slice:
			if SortOf(xt) == "Bytes" {
				out["BYTESWRITE"] = true
				return
			}
			out[ElemMapName(xt.Elem())] = true
		case *types.Pointer: // pointer to array
			if isLocalAllocBase(a.X) {
				return
			}
			out[ModStar] = true
		}
	case *ssa.Global:
		out["G:"+a.Pkg.Pkg.Path()+"."+a.Name()] = true
	case *ssa.Alloc:
		// local cell: not visible to the caller
	case *ssa.FreeVar:
		if al := resolveFreeVar(a); al != nil && isScalarAlloc(al) && !allocEscapes(al, 0) {
			out[LocalCellName(al)] = true
			return
		}
		if pt, ok := addr.Type().Underlying().(*types.Pointer); ok {
			out[CellMapName(pt.Elem())] = true
		} else {
			out[ModStar] = true
		}
	default:
		// store through an arbitrary pointer value
		pt, ok := addr.Type().Underlying().(*types.Pointer)
		if !ok {
			out[ModStar] = true
			return
		}
		if st, ok := pt.Elem().Underlying().(*types.Struct); ok {
			for i := 0; i < st.NumFields(); i++ {
				name, ft := FieldMapName(pt.Elem(), i)
				addStructOrField(name, ft, out)
			}
			return
		}
		out[CellMapName(pt.Elem())] = true
	}
}

func addStructOrField(name string, ft types.Type, out map[string]bool) {
	out[name] = true
	if ft == nil {
		return
	}
	// storing a struct value into a struct-typed field overwrites the nested fields too
	if st, ok := ft.Underlying().(*types.Struct); ok {
		if _, isNamed := ft.(*types.Named); isNamed || true {
			for i := 0; i < st.NumFields(); i++ {
				n2, _ := FieldMapName(ft, i)
				out[n2] = true
			}
		}
	}
}

// pointeeMods adds every field of the struct a pointer-typed value points to (depth 2).
func pointeeMods(t types.Type, out map[string]bool, depth int) {
	if depth > 2 {
		return
	}
	switch u := t.Underlying().(type) {
	case *types.Pointer:
		if st, ok := u.Elem().Underlying().(*types.Struct); ok {
			for i := 0; i < st.NumFields(); i++ {
				name, ft := FieldMapName(u.Elem(), i)
				out[name] = true
				if ft != nil {
					pointeeMods(ft, out, depth+1)
				}
			}
			return
		}
		out[CellMapName(u.Elem())] = true
	case *types.Slice:
		if SortOf(u) != "Bytes" {
			out[ElemMapName(u.Elem())] = true
			pointeeMods(u.Elem(), out, depth+1)
		}
	case *types.Map:
		d, v := MapMapNames(u)
		out[d] = true
		out[v] = true
	case *types.Interface:
		// unknown dynamic type: be conservative only for explicit ModAll
	}
}

// directMods computes the direct (non-transitive) effects of one function and
// the list of callees whose effects must be added.
func (P *Program) directMods(fn *ssa.Function) (map[string]bool, []*ssa.Function) {
	out := map[string]bool{}
	var callees []*ssa.Function
	handleCall := func(c *ssa.CallCommon) {
		if c.IsInvoke() {
			key := IfaceMethodKey(c.Value.Type(), c.Method)
			if fc := P.contractFor(key); fc != nil && (fc.Trusted || fc.IsIface) {
				P.contractModsSummary(fc, c, out)
				return
			}
			impls := P.implementers(c.Value.Type(), c.Method)
			callees = append(callees, impls...)
			return
		}
		if b, ok := c.Value.(*ssa.Builtin); ok {
			switch b.Name() {
			case "copy":
				if st, ok := c.Args[0].Type().Underlying().(*types.Slice); ok {
					if SortOf(st) == "Bytes" {
						out["BYTESWRITE"] = true
					} else {
						out[ElemMapName(st.Elem())] = true
					}
				}
			case "delete":
				if mt, ok := c.Args[0].Type().Underlying().(*types.Map); ok {
					d, v := MapMapNames(mt)
					out[d] = true
					out[v] = true
				}
			}
			return
		}
		callee := c.StaticCallee()
		if callee == nil {
			// call through a function value
			out[ModStar] = true
			return
		}
		key := FuncKey(callee)
		if fc := P.contractFor(key); fc != nil && (fc.Trusted || fc.Pure || fc.NoEffects) {
			P.contractModsSummary(fc, c, out)
			for _, g := range fc.Sets {
				out["H:"+g.Name] = true
			}
			return
		}
		if callee.Blocks != nil && (callee.Pkg != nil && IsRepoPath(callee.Pkg.Pkg.Path()) || callee.Parent() != nil) {
			callees = append(callees, callee)
			return
		}
		// external function without trusted contract: assumed to have no effect on
		// modelled state (recorded by the executor in the evidence).
	}
	if fc := P.contractFor(FuncKey(fn)); fc != nil {
		for _, g := range fc.Sets {
			out["H:"+g.Name] = true
		}
	}
	for _, b := range fn.Blocks {
		for _, ins := range b.Instrs {
			switch x := ins.(type) {
			case *ssa.Store:
				storeTargets(x.Addr, out)
			case *ssa.MapUpdate:
				if mt, ok := x.Map.Type().Underlying().(*types.Map); ok {
					d, v := MapMapNames(mt)
					out[d] = true
					out[v] = true
				}
			case *ssa.Call:
				handleCall(x.Common())
			case *ssa.Go:
				handleCall(x.Common())
			case *ssa.Defer:
				handleCall(x.Common())
			}
		}
	}
	return out, callees
}

// contractModsSummary is contractMods for the SUMMARY of the calling function (what
// its own callers can observe): an argument that is an object allocated by the
// calling function itself is invisible to them - writing it cannot change any object
// that existed before the call.
func (P *Program) contractModsSummary(fc *FuncContract, c *ssa.CallCommon, out map[string]bool) {
	P.contractModsOpt(fc, c, out, true)
}

func (P *Program) contractMods(fc *FuncContract, c *ssa.CallCommon, out map[string]bool) {
	P.contractModsOpt(fc, c, out, false)
}

func isFreshHeapObject(v ssa.Value) bool {
	if mi, ok := v.(*ssa.MakeInterface); ok {
		v = mi.X
	}
	a, ok := v.(*ssa.Alloc)
	return ok && a.Heap
}

func (P *Program) contractModsOpt(fc *FuncContract, c *ssa.CallCommon, out map[string]bool, skipFresh bool) {
	for _, g := range fc.ModGhost {
		out["H:"+g] = true
	}
	if fc.ModAll {
		out[ModStar] = true
	}
	if len(fc.ModArgs) > 0 {
		// positional lookup of the named parameters happens in the executor; here be
		// conservative: every pointer-typed argument's pointee
		for _, a := range c.Args {
			if skipFresh && isFreshHeapObject(a) {
				continue
			}
			pointeeMods(a.Type(), out, 0)
			// interface-typed argument holding a pointer: look through MakeInterface
			if mi, ok := a.(*ssa.MakeInterface); ok {
				pointeeMods(mi.X.Type(), out, 0)
			} else if _, isI := a.Type().Underlying().(*types.Interface); isI {
				if _, isConst := a.(*ssa.Const); !isConst {
					out[ModStar] = true // dynamic type of the written object unknown
				}
			}
		}
	}
}

// ComputeMods runs the fixpoint.
func (P *Program) ComputeMods() {
	direct := map[*ssa.Function]map[string]bool{}
	calls := map[*ssa.Function][]*ssa.Function{}
	var all []*ssa.Function
	seen := map[*ssa.Function]bool{}
	var visit func(fn *ssa.Function)
	visit = func(fn *ssa.Function) {
		if seen[fn] || fn.Blocks == nil {
			return
		}
		seen[fn] = true
		all = append(all, fn)
		d, cs := P.directMods(fn)
		direct[fn] = d
		calls[fn] = cs
		for _, c := range cs {
			visit(c)
		}
		for _, a := range fn.AnonFuncs {
			visit(a)
		}
	}
	for _, fn := range P.RepoFns {
		visit(fn)
	}
	for _, fn := range all {
		m := map[string]bool{}
		for k := range direct[fn] {
			m[k] = true
		}
		P.Mods[fn] = m
	}
	changed := true
	for changed {
		changed = false
		for _, fn := range all {
			m := P.Mods[fn]
			for _, c := range calls[fn] {
				for k := range P.Mods[c] {
					if !m[k] {
						m[k] = true
						changed = true
					}
				}
			}
		}
	}
}

// ModsOf returns the sorted modifies set of a function (nil: unknown -> star).
func (P *Program) ModsOf(fn *ssa.Function) []string {
	m, ok := P.Mods[fn]
	if !ok {
		return []string{ModStar}
	}
	var r []string
	for k := range m {
		r = append(r, k)
	}
	sort.Strings(r)
	return r
}

// SourceOf returns the source text of a function (for hashing in the evidence).
func (P *Program) SourceOf(fn *ssa.Function) string {
	if fn.Syntax() == nil {
		return ""
	}
	s := P.Fset.Position(fn.Syntax().Pos())
	e := P.Fset.Position(fn.Syntax().End())
	b, err := os.ReadFile(s.Filename)
	if err != nil || e.Offset > len(b) {
		return ""
	}
	return string(b[s.Offset:e.Offset])
}

func (P *Program) RelFile(fn *ssa.Function) string {
	if fn.Syntax() == nil {
		return ""
	}
	s := P.Fset.Position(fn.Syntax().Pos())
	r, err := filepath.Rel(P.RepoDir, s.Filename)
	if err != nil {
		return s.Filename
	}
	return r
}
