package vc

// Calls: builtins, callee contracts (modular), trusted externals, inlining of
// small repo functions, opaque calls with inferred modifies sets.

import (
	"fmt"
	"os"
	"go/types"
	"sort"
	"strconv"
	"strings"

	"golang.org/x/tools/go/ssa"
)

const maxInlineDepth = 4
const maxInlineBlocks = 14

func (fr *frame) call(c *ssa.CallCommon, site *ssa.Call, st *State) TV {
	s := fr.s
	var resT types.Type = types.NewTuple()
	if site != nil {
		resT = site.Type()
	} else if sig, ok := c.Value.Type().Underlying().(*types.Signature); ok && !c.IsInvoke() {
		resT = sig.Results()
	}
	// ---- builtins ----
	if b, ok := c.Value.(*ssa.Builtin); ok {
		return fr.builtin(b, c, resT, st)
	}
	var args []TV
	var argVals []ssa.Value
	var key string
	var callee *ssa.Function
	var sig *types.Signature
	if c.IsInvoke() {
		recv := fr.val(c.Value, st)
		s.assume(st, fmt.Sprintf("(not (= (ityp %s) 0))", recv.T)) // method call on nil interface panics
		args = append(args, recv)
		argVals = append(argVals, c.Value)
		key = IfaceMethodKey(c.Value.Type(), c.Method)
		sig = c.Method.Type().(*types.Signature)
	} else {
		callee = c.StaticCallee()
		if callee != nil {
			key = FuncKey(callee)
			sig = callee.Signature
		} else {
			sig, _ = c.Value.Type().Underlying().(*types.Signature)
		}
	}
	for _, a := range c.Args {
		args = append(args, fr.val(a, st))
		argVals = append(argVals, a)
	}
	// closures: callee known through a MakeClosure in this frame
	var cl *closure
	if callee == nil && !c.IsInvoke() {
		fr.val(c.Value, st)
		if k, ok := fr.clos[c.Value]; ok {
			cl = k
			callee = k.fn
			key = FuncKey(callee)
		}
	} else if callee != nil {
		if mc, ok := c.Value.(*ssa.MakeClosure); ok {
			fr.val(mc, st)
			cl = fr.clos[mc]
		}
	}
	// ---- call-site assertions of the function under verification ----
	if fr.env0 != nil && s.FC != nil && len(s.FC.Ats) > 0 && site != nil {
		fr.atAsserts(key, site, args, c, st)
	}
	if (fr.isTop || fr.transparent) && s.FC != nil && len(s.FC.Deferred) > 0 && site != nil {
		fr.deferredClosures(key, site, c, st)
	}
	// ---- contract ----
	if fc := s.P.contractFor(key); fc != nil && !fc.Inline {
		return fr.applyContract(fc, key, callee, sig, c, args, argVals, resT, st)
	}
	// ---- special externals modelled directly ----
	if tv, ok := fr.modelled(key, args, resT, st); ok {
		return tv
	}
	// ---- inline ----
	if callee != nil && callee.Blocks != nil && fr.canInline(callee, cl != nil) {
		fr.curSite = site
		return fr.inline(callee, cl, args, resT, st)
	}
	// ---- opaque ----
	res := s.freshValue(st, "r:"+lastSeg(key), resT)
	if callee != nil && callee.Blocks != nil && (callee.Parent() != nil || (callee.Pkg != nil && IsRepoPath(callee.Pkg.Pkg.Path()))) {
		s.Opaque[key] = true
		if os.Getenv("GOVC_DEBUG") != "" {
			fmt.Fprintf(os.Stderr, "opaque %s mods=%v\n", key, s.P.ModsOf(callee))
		}
		s.havoc(st, s.P.ModsOf(callee), key)
		if cl != nil {
			fr.havocBindings(cl, st)
		}
		return res
	}
	if c.IsInvoke() {
		impls := s.P.implementers(c.Value.Type(), c.Method)
		if len(impls) > 0 {
			s.Opaque[key+" (interface; "+strconv.Itoa(len(impls))+" repo implementers)"] = true
			set := map[string]bool{}
			for _, im := range impls {
				for _, m := range s.P.ModsOf(im) {
					set[m] = true
				}
			}
			var ms []string
			for m := range set {
				ms = append(ms, m)
			}
			sort.Strings(ms)
			s.havoc(st, ms, key)
			return res
		}
		s.Assumed[key+" (interface method, no repo implementer)"] = true
		return res
	}
	if callee == nil {
		// call through an unknown function value
		s.note("%s: call through function value: all modelled state havocked", FuncKey(fr.fn))
		s.havoc(st, []string{ModStar}, "funcvalue")
		return res
	}
	// external function without contract: assumed effect-free on modelled state
	s.Assumed[key] = true
	return res
}

func lastSeg(k string) string {
	if i := strings.LastIndex(k, "/"); i >= 0 {
		k = k[i+1:]
	}
	return k
}

func (fr *frame) havocBindings(cl *closure, st *State) {
	for _, l := range cl.bindLocs {
		if l == nil {
			continue
		}
		nv := fr.s.freshValue(st, "captured", l.gt)
		fr.store(st, l, nv)
	}
}

// callOpaqueEffects applies only the effects of a call (go statements).
func (fr *frame) callOpaqueEffects(c *ssa.CallCommon, st *State) {
	d, callees := fr.s.P.callMods(c)
	set := map[string]bool{}
	for k := range d {
		set[k] = true
	}
	for _, ce := range callees {
		for _, k := range fr.s.P.ModsOf(ce) {
			set[k] = true
		}
	}
	var ms []string
	for m := range set {
		ms = append(ms, m)
	}
	sort.Strings(ms)
	if len(ms) > 0 {
		fr.s.havoc(st, ms, "go")
	}
	if mc, ok := c.Value.(*ssa.MakeClosure); ok {
		fr.val(mc, st)
		if cl := fr.clos[mc]; cl != nil {
			fr.havocBindings(cl, st)
		}
	}
}

func (fr *frame) canInline(callee *ssa.Function, isClosure bool) bool {
	if fr.depth >= maxInlineDepth {
		return false
	}
	if fc := fr.s.P.contractFor(FuncKey(callee)); fc != nil && fc.NoInline {
		return false
	}
	// recursion guard
	for f := fr; f != nil; f = f.parent {
		if f.fn == callee {
			return false
		}
	}
	// (functions with defers have a Recover block; panics are not modelled, so it is ignored)
	inRepo := callee.Parent() != nil || (callee.Pkg != nil && IsRepoPath(callee.Pkg.Pkg.Path()))
	if !inRepo {
		return false
	}
	// a helper extracted from the function under contract is part of it
	if (fr.isTop || fr.transparent) && !isClosure && fr.s.isNewHelper(callee) {
		return true
	}
	if fc := fr.s.P.contractFor(FuncKey(callee)); fc != nil && fc.Inline {
		return true
	}
	if len(callee.Blocks) > maxInlineBlocks && !isClosure {
		return false
	}
	// no loops
	for _, b := range callee.Blocks {
		for _, su := range b.Succs {
			if su.Dominates(b) {
				return isClosure && len(callee.Blocks) <= 40
			}
		}
	}
	return true
}

func (fr *frame) inline(callee *ssa.Function, cl *closure, args []TV, resT types.Type, st *State) TV {
	s := fr.s
	s.Inlined[FuncKey(callee)] = true
	nf := s.newFrame(callee, fr.depth+1)
	nf.env0 = fr.env0
	nf.parent = fr
	if cl != nil {
		nf.site = fr.curSite // names the literal does not capture resolve in the enclosing function here
	}
	if cl == nil && (fr.isTop || fr.transparent) && fr.curSite != nil && s.isNewHelper(callee) {
		nf.transparent = true
		nf.site = fr.curSite
		before := 0
		for _, l := range astLoopsOf(fr.fn) {
			if l.Pos() < nf.site.Pos() {
				before++
			}
		}
		nf.ordBase = fr.ordBase + before + s.helperLoopsBefore(fr.fn, nf.site.Pos())
		s.note("%s: %s did not exist when the contract names were recorded and has no contract: verified as part of the calling function (its loops and calls numbered at the call site)", FuncKey(s.Top), FuncKey(callee))
	}
	for i, p := range callee.Params {
		if i < len(args) {
			a := args[i]
			a.GT = p.Type()
			nf.vals[p] = fr.coerce(a, SortOf(p.Type()))
		}
	}
	if cl != nil {
		for i, fv := range callee.FreeVars {
			if i < len(cl.bindings) {
				nf.vals[fv] = cl.bindings[i]
				if cl.bindLocs[i] != nil {
					nf.locs[fv] = cl.bindLocs[i]
				}
			}
		}
	}
	// propagate closure knowledge of arguments
	rets, out := nf.run(st)
	st.Guard = out.Guard
	st.Maps = out.Maps
	if out.Guard == "false" {
		// callee never returns
		return s.freshValue(st, "noret", resT)
	}
	if tup, ok := resT.(*types.Tuple); ok {
		if tup.Len() == 0 {
			return TV{S: "Tuple"}
		}
		if tup.Len() == 1 && len(rets) == 1 {
			return rets[0]
		}
		return TV{S: "Tuple", GT: resT, Tup: rets}
	}
	if len(rets) == 1 {
		return rets[0]
	}
	return TV{S: "Tuple", GT: resT, Tup: rets}
}

// ---------------------------------------------------------------------------
// contracts at call sites

func paramNames(callee *ssa.Function, sig *types.Signature, invoke bool) []string {
	var names []string
	if callee != nil && callee.Blocks != nil {
		for _, p := range callee.Params {
			names = append(names, p.Name())
		}
		return names
	}
	if sig == nil {
		return nil
	}
	if invoke || sig.Recv() != nil {
		n := "recv"
		if sig.Recv() != nil && sig.Recv().Name() != "" && sig.Recv().Name() != "_" {
			n = sig.Recv().Name()
		}
		names = append(names, n)
	}
	for i := 0; i < sig.Params().Len(); i++ {
		names = append(names, sig.Params().At(i).Name())
	}
	return names
}

func resultNames(sig *types.Signature) []string {
	var names []string
	if sig == nil {
		return nil
	}
	for i := 0; i < sig.Results().Len(); i++ {
		names = append(names, sig.Results().At(i).Name())
	}
	return names
}

// bindCallEnv builds the environment of a contract instantiated with actual arguments.
func (s *Sym) bindCallEnv(fc *FuncContract, callee *ssa.Function, sig *types.Signature, invoke bool, args []TV, pkg *types.Package) *Env {
	env := s.newEnv(pkg)
	if callee != nil {
		env.alias = s.P.aliasFor(callee)
	}
	names := paramNames(callee, sig, invoke)
	hasRecv := invoke || (sig != nil && sig.Recv() != nil)
	for i, a := range args {
		if i < len(names) && names[i] != "" && names[i] != "_" {
			env.vars[names[i]] = a
		}
		pi := i
		if hasRecv {
			pi = i - 1
		}
		if pi >= 0 {
			env.vars["$"+strconv.Itoa(pi)] = a
		} else {
			env.vars["recv"] = a
		}
	}
	return env
}

func bindResults(env *Env, sig *types.Signature, res []TV) {
	names := resultNames(sig)
	for i, r := range res {
		if i < len(names) && names[i] != "" && names[i] != "_" {
			env.vars[names[i]] = r
		}
		env.vars["result"+strconv.Itoa(i)] = r
		if len(res) == 1 {
			env.vars["result"] = r
		}
	}
	if len(res) > 0 {
		if _, ok := env.vars["result"]; !ok {
			env.vars["result"] = res[0]
		}
	}
}

func (fr *frame) applyContract(fc *FuncContract, key string, callee *ssa.Function, sig *types.Signature, c *ssa.CallCommon, args []TV, argVals []ssa.Value, resT types.Type, st *State) TV {
	s := fr.s
	if fc.Trusted {
		s.Trusted[key] = true
	} else {
		s.Contracts[key] = true
	}
	var pkg *types.Package
	if callee != nil && callee.Pkg != nil {
		pkg = callee.Pkg.Pkg
	} else if c.IsInvoke() && c.Method.Pkg() != nil {
		pkg = c.Method.Pkg()
	}
	env := s.bindCallEnv(fc, callee, sig, c.IsInvoke(), args, pkg)
	pre := st.clone()
	env.st, env.old = pre, pre
	for _, l := range fc.Lets {
		env.vars[l.Name] = s.eval(env, l.E)
	}
	// requires -> obligations of the caller
	for _, r := range fc.Requires {
		g := s.evalBool(env, r.E)
		if s.FC != nil && s.FC.AssumeCalleeReq {
			s.note("%s: precondition %s of callee %s assumed at the call site, not proved (trustcallees)", FuncKey(s.Top), r.Label, lastSeg(key))
			s.assume(st, g)
			continue
		}
		s.addObl(&Obligation{Name: fmt.Sprintf("%s#call:%s:requires:%s", shortKey(FuncKey(s.Top)), lastSeg(key), r.Label), Props: fr.callerProps(), Kind: "requires-call", Label: r.Label, Goal: fmt.Sprintf("(=> %s %s)", st.Guard, g), Src: r.Src})
		s.assume(st, g)
	}
	// effects
	var mods []string
	if fc.Trusted || fc.IsIface {
		for _, g := range fc.ModGhost {
			mods = append(mods, "H:"+g)
		}
		if fc.ModAll {
			mods = append(mods, ModStar)
		}
	} else if fc.Pure {
		// declared pure: no effect on modelled state (part of the purity assumption)
	} else if fc.NoEffects {
		s.Trusted[key+" assumed to have no effect on modelled heap state"] = true
		for _, g := range fc.Sets {
			mods = append(mods, "H:"+g.Name)
		}
	} else if callee != nil {
		mods = s.P.ModsOf(callee)
	} else {
		mods = []string{ModStar}
	}
	if len(mods) > 0 {
		s.havoc(st, mods, key)
	} else {
		// the callee may allocate
		oldTop := s.top(st)
		nt := s.fresh("TOP", "Int")
		s.assume(st, fmt.Sprintf("(>= %s %s)", nt, oldTop))
		st.Maps["TOP"] = nt
	}
	if len(fc.ModArgs) > 0 {
		names := paramNames(callee, sig, c.IsInvoke())
		for _, an := range fc.ModArgs {
			for i, n := range names {
				if n == an || "$"+strconv.Itoa(i) == an || (an == "$all") {
					if i < len(argVals) {
						fr.havocPointee(argVals[i], args[i], st)
					}
				}
			}
		}
	}
	// results
	var res []TV
	var rt []types.Type
	if tup, ok := resT.(*types.Tuple); ok {
		for i := 0; i < tup.Len(); i++ {
			rt = append(rt, tup.At(i).Type())
		}
	} else {
		rt = append(rt, resT)
	}
	for i, t := range rt {
		if fc.Pure {
			var as, ss []string
			for _, a := range args {
				as = append(as, a.T)
				ss = append(ss, a.S)
			}
			so := SortOf(t)
			f := s.declareFun(key+"#"+strconv.Itoa(i), ss, so)
			term := f
			if len(as) > 0 {
				term = fmt.Sprintf("(%s %s)", f, strings.Join(as, " "))
			}
			v := TV{T: s.define("r:"+lastSeg(key), so, term), S: so, GT: t}
			s.assumeType(st, v)
			res = append(res, v)
		} else {
			res = append(res, s.freshValue(st, "r:"+lastSeg(key)+"."+strconv.Itoa(i), t))
		}
	}
	env.st = st
	env.old = pre
	bindResults(env, sig, res)
	for _, e := range fc.Ensures {
		prevErr := s.Err
		g := s.evalBool(env, e.E)
		if prevErr == nil && s.Err != nil && strings.Contains(s.Err.Error(), "unknown identifier") {
			// the clause speaks about a local of the callee: it is checked against the
			// callee's body but carries no information for a caller
			s.Err = nil
			continue
		}
		s.assume(st, g)
		if e.Assumed {
			s.Trusted[key+" assumes "+e.Label+": "+e.Src] = true
		}
	}
	for _, u := range fc.Uses {
		s.useAxiom(u)
	}
	if tup, ok := resT.(*types.Tuple); ok {
		if tup.Len() == 0 {
			return TV{S: "Tuple"}
		}
		return TV{S: "Tuple", GT: resT, Tup: res}
	}
	return res[0]
}

func (fr *frame) callerProps() []string {
	if fr.s.FC != nil {
		return fr.s.FC.Props
	}
	return nil
}

// havocPointee: the object an argument points to may be arbitrarily modified
// (trusted functions that write through pointer arguments: Unmarshal, Decode, ...).
func (fr *frame) havocPointee(av ssa.Value, a TV, st *State) {
	s := fr.s
	t := av.Type()
	ref := a.T
	if mi, ok := av.(*ssa.MakeInterface); ok {
		t = mi.X.Type()
		ref = fr.val(mi.X, st).T
	} else if a.S == "Iface" {
		// dynamic type unknown: every field of the object at that reference may change
		s.note("%s: pointee of interface-typed argument of unknown dynamic type: all fields of that object havocked", FuncKey(fr.fn))
		s.havocs++
		ref := "(ival " + a.T + ")"
		var keys []string
		for k := range st.Maps {
			if strings.HasPrefix(k, "F:") {
				keys = append(keys, k)
			}
		}
		sort.Strings(keys)
		for _, k := range keys {
			so := arrayElemSort(s.mapSort[k])
			nv := s.fresh("hv:"+lastSeg(k), so)
			st.Maps[k] = s.define(k, s.mapSort[k], fmt.Sprintf("(store %s %s %s)", st.Maps[k], ref, nv))
		}
		oldTop := s.top(st)
		nt := s.fresh("TOP", "Int")
		s.assume(st, fmt.Sprintf("(>= %s %s)", nt, oldTop))
		st.Maps["TOP"] = nt
		return
	}
	pt, ok := t.Underlying().(*types.Pointer)
	if !ok {
		return
	}
	s.havocs++
	if stt, ok := pt.Elem().Underlying().(*types.Struct); ok {
		for i := 0; i < stt.NumFields(); i++ {
			name, ft := FieldMapName(pt.Elem(), i)
			if _, nested := ft.Underlying().(*types.Struct); nested {
				continue
			}
			so := SortOf(ft)
			ms := mapSortOfElem(so)
			m := s.getMap(st, name, ms)
			nv := s.freshValue(st, "hv:"+lastSeg(name), ft)
			s.setMap(st, name, ms, fmt.Sprintf("(store %s %s %s)", m, ref, nv.T))
		}
		// sub-objects created by the callee are fresh allocations
		oldTop := s.top(st)
		nt := s.fresh("TOP", "Int")
		s.assume(st, fmt.Sprintf("(>= %s %s)", nt, oldTop))
		st.Maps["TOP"] = nt
		return
	}
	so := SortOf(pt.Elem())
	name := CellMapName(pt.Elem())
	ms := mapSortOfElem(so)
	m := s.getMap(st, name, ms)
	nv := s.freshValue(st, "hv:cell", pt.Elem())
	s.setMap(st, name, ms, fmt.Sprintf("(store %s %s %s)", m, ref, nv.T))
}

// ---------------------------------------------------------------------------
// builtins and directly modelled library functions

func (fr *frame) lenOf(v TV, st *State) string {
	switch v.S {
	case "Str":
		return "(slen " + v.T + ")"
	case "Bytes":
		return "(slen (cont " + v.T + "))"
	case "Slice":
		return "(sl-len " + v.T + ")"
	}
	if v.GT != nil {
		if mt, ok := v.GT.Underlying().(*types.Map); ok {
			dn, _ := MapMapNames(mt)
			ks := SortOf(mt.Key())
			d := fr.s.getMap(st, dn, "(Array Int (Array "+ks+" Bool))")
			f := fr.s.declareFun("msize:"+sortTag(ks), []string{"(Array " + ks + " Bool)"}, "Int")
			// a declared constant for the domain so that it can be used in a pattern
			dom := fr.s.fresh("dom", "(Array "+ks+" Bool)")
			fr.s.emit(fmt.Sprintf("(assert (= %s (select %s %s)))", dom, d, v.T))
			t := fmt.Sprintf("(%s %s)", f, dom)
			fr.s.assume(st, fmt.Sprintf("(>= %s 0)", t))
			// size 0 <=> no key; a nil map has no keys
			fr.s.assume(st, fmt.Sprintf("(=> (or (= %s 0) (= %s 0)) (forall ((kk %s)) (! (not (and (not (= %s 0)) (select %s kk))) :pattern ((select %s kk)))))", t, v.T, ks, v.T, dom, dom))
			fr.s.assume(st, fmt.Sprintf("(=> (= %s 0) (= %s 0))", v.T, t))
			return t
		}
	}
	fr.s.note("%s: len of %s abstracted", FuncKey(fr.fn), v.S)
	n := fr.s.fresh("len", "Int")
	fr.s.assume(st, fmt.Sprintf("(>= %s 0)", n))
	return n
}

func (fr *frame) builtin(b *ssa.Builtin, c *ssa.CallCommon, resT types.Type, st *State) TV {
	s := fr.s
	var args []TV
	for _, a := range c.Args {
		args = append(args, fr.val(a, st))
	}
	switch b.Name() {
	case "len":
		return TV{T: fr.lenOf(args[0], st), S: "Int", GT: resT}
	case "cap":
		n := s.fresh("cap", "Int")
		s.assume(st, fmt.Sprintf("(>= %s %s)", n, fr.lenOf(args[0], st)))
		return TV{T: n, S: "Int", GT: resT}
	case "append":
		return fr.appendOp(c, args, resT, st)
	case "copy":
		if args[0].S == "Slice" {
			st0 := c.Args[0].Type().Underlying().(*types.Slice)
			s.havoc(st, []string{ElemMapName(st0.Elem())}, "copy")
			s.note("%s: builtin copy: destination contents havocked", FuncKey(fr.fn))
		} else {
			s.note("%s: builtin copy into []byte not modelled (value semantics for []byte)", FuncKey(fr.fn))
		}
		return s.freshValue(st, "copy", types.Typ[types.Int])
	case "delete":
		m, k := args[0], args[1]
		mt := c.Args[0].Type().Underlying().(*types.Map)
		dn, _ := MapMapNames(mt)
		ks := SortOf(mt.Key())
		dms := "(Array Int (Array " + ks + " Bool))"
		d := s.getMap(st, dn, dms)
		s.setMap(st, dn, dms, fmt.Sprintf("(store %s %s (store (select %s %s) %s false))", d, m.T, d, m.T, k.T))
		return TV{S: "Tuple"}
	case "print", "println":
		return TV{S: "Tuple"}
	case "panic":
		s.assume(st, "false")
		return TV{S: "Tuple"}
	case "recover":
		return TV{T: "iface_nil", S: "Iface", GT: resT}
	case "close":
		return TV{S: "Tuple"}
	}
	s.note("%s: builtin %s abstracted", FuncKey(fr.fn), b.Name())
	return s.freshValue(st, b.Name(), resT)
}

func (fr *frame) appendOp(c *ssa.CallCommon, args []TV, resT types.Type, st *State) TV {
	s := fr.s
	a, b := args[0], args[1]
	switch a.S {
	case "Bytes":
		var bs string
		switch b.S {
		case "Bytes":
			bs = "(cont " + b.T + ")"
		case "Str":
			bs = b.T
		default:
			s.note("%s: append of %s to []byte abstracted", FuncKey(fr.fn), b.S)
			return s.freshValue(st, "append", resT)
		}
		if a.Lit != nil && b.Lit != nil {
			lit := *a.Lit + *b.Lit
			return TV{T: "(mk-bytes false " + s.strConst(lit) + ")", S: "Bytes", GT: resT, Lit: &lit}
		}
		t := s.define("cat", "Str", fmt.Sprintf("(sconcat (cont %s) %s)", a.T, bs))
		s.assume(st, fmt.Sprintf("(= (slen %s) (+ (slen (cont %s)) (slen %s)))", t, a.T, bs))
		s.assume(st, fmt.Sprintf("(=> (= (slen %s) 0) (= %s (cont %s)))", bs, t, a.T))
		s.assume(st, fmt.Sprintf("(=> (= (slen (cont %s)) 0) (= %s %s))", a.T, t, bs))
		r := TV{T: s.define("append", "Bytes", fmt.Sprintf("(mk-bytes (and (bnil %s) (= (slen %s) 0)) %s)", a.T, bs, t)), S: "Bytes", GT: resT}
		return r
	case "Slice":
		st0 := resT.Underlying().(*types.Slice)
		es := SortOf(st0.Elem())
		ms := "(Array Int " + mapSortOfElem(es) + ")"
		name := ElemMapName(st0.Elem())
		m := s.getMap(st, name, ms)
		// variadic argument is itself a slice: s = append(s, x) is compiled as
		// append(s, [x]) with a fresh one-element backing array
		bl := fmt.Sprintf("(sl-len %s)", b.T)
		if n, ok := fr.arrLen[c.Args[1]]; ok && n <= 4 {
			// quantifier-free: the new backing array is a's array with n stores
			arr := s.allocRef(st, "append.arr")
			la := fmt.Sprintf("(sl-len %s)", a.T)
			content := fmt.Sprintf("(select %s (sl-arr %s))", m, a.T)
			for i := 0; i < n; i++ {
				content = fmt.Sprintf("(store %s (+ %s %d) (select (select %s (sl-arr %s)) %d))", content, la, i, m, b.T, i)
			}
			s.setMap(st, name, ms, fmt.Sprintf("(store %s %s %s)", m, arr, content))
			return TV{T: s.define("append", "Slice", fmt.Sprintf("(mk-slice %s (+ %s %d))", arr, la, n)), S: "Slice", GT: resT}
		}
		arr := s.allocRef(st, "append.arr")
		content := s.fresh("append.content", mapSortOfElem(es))
		la := fmt.Sprintf("(sl-len %s)", a.T)
		// the fresh array holds a's elements followed by b's
		s.assume(st, fmt.Sprintf("(forall ((i Int)) (! (=> (and (<= 0 i) (< i %s)) (= (select %s i) (select (select %s (sl-arr %s)) i))) :pattern ((select %s i))))", la, content, m, a.T, content))
		s.assume(st, fmt.Sprintf("(forall ((i Int)) (! (=> (and (<= 0 i) (< i %s)) (= (select %s (+ %s i)) (select (select %s (sl-arr %s)) i))) :pattern ((select %s (+ %s i)))))", bl, content, la, m, b.T, content, la))
		// common case: exactly one element appended — give the ground instance
		s.assume(st, fmt.Sprintf("(=> (= %s 1) (= (select %s %s) (select (select %s (sl-arr %s)) 0)))", bl, content, la, m, b.T))
		s.setMap(st, name, ms, fmt.Sprintf("(store %s %s %s)", m, arr, content))
		return TV{T: s.define("append", "Slice", fmt.Sprintf("(mk-slice %s (+ %s %s))", arr, la, bl)), S: "Slice", GT: resT}
	}
	s.note("%s: append on %s abstracted", FuncKey(fr.fn), a.S)
	return s.freshValue(st, "append", resT)
}

// modelled handles a few library functions whose exact meaning the value model
// of strings / []byte can express directly.
func (fr *frame) modelled(key string, args []TV, resT types.Type, st *State) (TV, bool) {
	s := fr.s
	switch key {
	case "bytes.Equal":
		s.Trusted["bytes.Equal (content equality, nil == empty)"] = true
		return TV{T: fmt.Sprintf("(= (cont %s) (cont %s))", args[0].T, args[1].T), S: "Bool", GT: resT}, true
	case "bytes.Compare":
		s.Trusted["bytes.Compare (0 iff content equal)"] = true
		r := s.fresh("cmp", "Int")
		s.assume(st, fmt.Sprintf("(and (>= %s (- 1)) (<= %s 1) (= (= %s 0) (= (cont %s) (cont %s))) (= (< %s 0) (slt (cont %s) (cont %s))) (= (> %s 0) (slt (cont %s) (cont %s))))", r, r, r, args[0].T, args[1].T, r, args[0].T, args[1].T, r, args[1].T, args[0].T))
		return TV{T: r, S: "Int", GT: resT}, true
	case "strings.Compare":
		r := s.fresh("cmp", "Int")
		s.assume(st, fmt.Sprintf("(and (>= %s (- 1)) (<= %s 1) (= (= %s 0) (= %s %s)) (= (< %s 0) (slt %s %s)))", r, r, r, args[0].T, args[1].T, r, args[0].T, args[1].T))
		return TV{T: r, S: "Int", GT: resT}, true
	case "errors.New", "fmt.Errorf":
		s.Trusted[key+" (returns a non-nil error)"] = true
		r := s.freshValue(st, "err", resT)
		s.assume(st, fmt.Sprintf("(not (= (ityp %s) 0))", r.T))
		return r, true
	}
	return TV{}, false
}

// calleeKeyOf: the contract key a call resolves to statically ("" if unknown).
func (s *Sym) calleeKeyOf(c *ssa.CallCommon) string {
	if c.IsInvoke() {
		return IfaceMethodKey(c.Value.Type(), c.Method)
	}
	if callee := c.StaticCallee(); callee != nil {
		return FuncKey(callee)
	}
	return ""
}

// callOrdinal: position (1-based, source order) of a call among the calls of the same
// callee in its function.
func (fr *frame) callOrdinal(site *ssa.Call, callee string) int {
	if fr.isTop || fr.transparent {
		// calls inside helpers extracted from the function count at the helper's call site
		n := 1 + fr.s.callCount(fr.fn, callee, site.Pos(), 0)
		for f := fr; f.transparent && f.parent != nil && f.site != nil; f = f.parent {
			n += fr.s.callCount(f.parent.fn, callee, f.site.Pos(), 0)
		}
		return n
	}
	n := 1
	for _, b := range site.Parent().Blocks {
		for _, in := range b.Instrs {
			c, ok := in.(*ssa.Call)
			if !ok || c == site {
				continue
			}
			k := fr.s.calleeKeyOf(c.Common())
			if !(k == callee || strings.HasSuffix(k, "."+callee) || strings.HasSuffix(k, "/"+callee)) {
				continue
			}
			if c.Pos() < site.Pos() {
				n++
			}
		}
	}
	return n
}

// atAsserts emits the obligations of `at <callee> assert` clauses matching this call.
func (fr *frame) atAsserts(key string, site *ssa.Call, args []TV, c *ssa.CallCommon, st *State) {
	s := fr.s
	for _, at := range s.FC.Ats {
		callee, ordinal := at.Callee, 0
		if i := strings.LastIndex(callee, "#"); i > 0 {
			// <callee>#N: only the N-th call of that callee in source order
			if n, err := strconv.Atoi(callee[i+1:]); err == nil {
				callee, ordinal = callee[:i], n
			}
		}
		// <$k>:<callee>: calls made by the k-th function literal of the function (numbered
		// within the literal); without the prefix a numbered clause speaks of the calls the
		// function makes itself
		closureTag := ""
		if i := strings.Index(callee, ":"); i > 0 && strings.HasPrefix(callee, "$") {
			closureTag, callee = callee[:i], callee[i+1:]
		}
		if !(key == callee || strings.HasSuffix(key, "."+callee) || strings.HasSuffix(key, "/"+callee)) {
			continue
		}
		inLiteral := !fr.isTop && fr.fn.Parent() != nil
		if closureTag != "" {
			if !inLiteral || !strings.HasSuffix(FuncKey(fr.fn), closureTag) {
				continue
			}
		} else if ordinal > 0 && (inLiteral || !(fr.isTop || fr.transparent)) {
			// a numbered clause counts the calls the function makes itself, not those of the
			// functions inlined into it
			continue
		}
		if ordinal > 0 && site != nil && fr.callOrdinal(site, callee) != ordinal {
			continue
		}
		env := fr.env0.child()
		env.st = st
		hasRecv := c.IsInvoke() || (c.StaticCallee() != nil && c.StaticCallee().Signature.Recv() != nil)
		for i, a := range args {
			pi := i
			if hasRecv {
				pi = i - 1
			}
			if pi >= 0 {
				env.vars["$"+strconv.Itoa(pi)] = a
			} else {
				env.vars["recv"] = a
			}
		}
		blk := site.Block()
		env.localFirst = fr.transparent
		env.local = func(name string) (TV, bool) {
			// parameters and captured variables of an inlined closure / helper first
			return fr.resolveName(name, blk, site, st)
		}
		// a source variable the assertion names but that has no value yet at this call
		// (the call precedes its assignment): the assertion cannot hold at this site
		prevErr := s.Err
		src := at.C.Src
		var g string
		if imp, ok := at.C.E.(EBin); ok && imp.Op == "==>" {
			// guard ==> body: where the body names a variable that has no value at this
			// site, the assertion holds exactly if the guard is false here
			a := s.evalBool(env, imp.X)
			if prevErr == nil && s.Err == nil {
				b := s.evalBool(env, imp.Y)
				if s.Err != nil && strings.Contains(s.Err.Error(), "unknown identifier") {
					src = src + "   [" + s.Err.Error() + ": not assigned at this call]"
					s.Err = nil
					b = "false"
				}
				g = fmt.Sprintf("(=> %s %s)", a, b)
			} else {
				g = a
			}
		} else {
			g = s.evalBool(env, at.C.E)
		}
		if prevErr == nil && s.Err != nil && strings.Contains(s.Err.Error(), "unknown identifier") {
			src = src + "   [" + s.Err.Error() + ": not assigned before this call]"
			s.Err = nil
			g = "false"
		}
		top := fr
		for top.parent != nil {
			top = top.parent
		}
		top.atCount[at.C.Label]++
		s.addObl(&Obligation{Name: fmt.Sprintf("%s#at:%s:%s@%d", shortKey(FuncKey(s.Top)), at.Callee, at.C.Label, top.atCount[at.C.Label]), Props: fr.propsOf(at.C), Kind: "call-site-assert", Label: at.C.Label, Goal: fmt.Sprintf("(=> %s %s)", st.Guard, g), Src: src})
		top.atHit[at.C.Label] = true
	}
}

// deferredClosures: `deferred <callee>` - a function literal handed to <callee> is run
// LATER (a hook, a callback). Two things are checked where it is handed over:
//   - its body, executed on a copy of the state at this point (so the `$k:<callee>`
//     call-site clauses written for the literal are proved for the values its captured
//     variables have now); the copy is dropped, the literal has not run yet;
//   - every variable it captured by reference is not assigned again afterwards in this
//     function (a range variable shared by all iterations is): otherwise what runs later
//     sees another value than the one the clauses were proved for. Decided on the CFG.
func (fr *frame) deferredClosures(key string, site *ssa.Call, c *ssa.CallCommon, st *State) {
	s := fr.s
	for _, d := range s.FC.Deferred {
		if !s.matchesCallee(key, d.Callee) {
			continue
		}
		for _, a := range c.Args {
			mc, ok := a.(*ssa.MakeClosure)
			if !ok {
				continue
			}
			fr.val(mc, st)
			cl := fr.clos[mc]
			lit, _ := mc.Fn.(*ssa.Function)
			if cl == nil || lit == nil {
				continue
			}
			// (1) the body, now, on a copy
			if fr.canInline(lit, true) {
				tmp := st.clone()
				saved := fr.curSite
				fr.curSite = site
				fr.inline(lit, cl, nil, nil, tmp)
				fr.curSite = saved
			} else {
				s.note("%s: the function literal handed to %s is not executed symbolically (too large or recursive); only its captures are checked", FuncKey(s.Top), d.Callee)
			}
			fr.capturesStay(d, mc, lit)
		}
	}
}

// capturesStay: obligation (2) of a `deferred` clause for one function literal.
func (fr *frame) capturesStay(d AtClause, mc *ssa.MakeClosure, lit *ssa.Function) {
	s := fr.s
	top := fr
	for top.parent != nil {
		top = top.parent
	}
	for i, b := range mc.Bindings {
		al, isAlloc := b.(*ssa.Alloc)
		if !isAlloc {
			continue
		}
		name := "?"
		if i < len(lit.FreeVars) {
			name = lit.FreeVars[i].Name()
		}
		goal, src := "true", d.C.Src
		if st := storeAfter(mc, al); st != nil {
			goal = "false"
			src = fmt.Sprintf("%s: captured variable %q is assigned again at %s after the literal was made", d.C.Src, name, s.P.Fset.Position(st.Pos()))
		}
		top.atCount[d.C.Label+":"+name]++
		s.addObl(&Obligation{Name: fmt.Sprintf("%s#deferred:%s:%s:captured_%s_keeps_its_value@%d", shortKey(FuncKey(s.Top)), d.Callee, d.C.Label, name, top.atCount[d.C.Label+":"+name]), Props: fr.propsOf(d.C), Kind: "frame", Label: d.C.Label, Goal: goal, Src: src})
	}
}

// storeAfter: a store to cell al reachable from (after) instruction from without passing
// the allocation of al again (which makes a fresh cell).
func storeAfter(from ssa.Instruction, al *ssa.Alloc) *ssa.Store {
	blk := from.Block()
	seen := map[*ssa.BasicBlock]bool{}
	var scan func(b *ssa.BasicBlock, start int) *ssa.Store
	scan = func(b *ssa.BasicBlock, start int) *ssa.Store {
		for _, in := range b.Instrs[start:] {
			if in == ssa.Instruction(al) {
				return nil
			}
			if sto, ok := in.(*ssa.Store); ok && sto.Addr == ssa.Value(al) {
				return sto
			}
		}
		for _, su := range b.Succs {
			if seen[su] {
				continue
			}
			seen[su] = true
			if r := scan(su, 0); r != nil {
				return r
			}
		}
		return nil
	}
	idx := 0
	for i, in := range blk.Instrs {
		if in == from {
			idx = i + 1
		}
	}
	return scan(blk, idx)
}
