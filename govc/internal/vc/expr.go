package vc

// Contract expression language: lexer, Pratt parser, AST.
//
//   e ::= forall x T, y U :: e | exists ... :: e
//       | e ==> e | e <==> e | e || e | e && e | !e
//       | e (== != < <= > >=) e | e (+ - * / %) e | -e | *e
//       | c ? a : b
//       | e.f | e[i] | e[:n] | f(e, ...) | e.(T)
//       | old(e) | len(e) | ident | 123 | "str" | true | false | nil
//
// Identifiers may contain '.', '#' and '$' in the middle (pkg.Name, f#1, $i).

import (
	"fmt"
	"strings"
	"unicode"
)

type Expr interface{ String() string }

type (
	EInt   struct{ V string }
	EStr   struct{ V string }
	EBool  struct{ V bool }
	ENil   struct{}
	EIdent struct{ Name string }
	EUn    struct {
		Op string
		X  Expr
	}
	EBin struct {
		Op   string
		X, Y Expr
	}
	ECond  struct{ C, A, B Expr }
	EField struct {
		X    Expr
		Name string
	}
	EIndex struct{ X, I Expr }
	ESlice struct{ X, Lo, Hi Expr } // Lo/Hi may be nil
	ECall  struct {
		Fn   string
		Recv Expr // non-nil for method-call syntax x.M(args)
		Args []Expr
	}
	EOld    struct{ X Expr }
	EAssert struct { // x.(T): payload of interface x viewed as *T (T = pkg.Type short name)
		X Expr
		T string
	}
	EQuant struct {
		Forall bool
		Vars   []QVar
		Body   Expr
	}
)

type QVar struct{ Name, Type string }

func (e EInt) String() string   { return e.V }
func (e EStr) String() string   { return fmt.Sprintf("%q", e.V) }
func (e EBool) String() string  { return fmt.Sprint(e.V) }
func (e ENil) String() string   { return "nil" }
func (e EIdent) String() string { return e.Name }
func (e EUn) String() string    { return e.Op + e.X.String() }
func (e EBin) String() string   { return "(" + e.X.String() + " " + e.Op + " " + e.Y.String() + ")" }
func (e ECond) String() string {
	return "(" + e.C.String() + " ? " + e.A.String() + " : " + e.B.String() + ")"
}
func (e EField) String() string { return e.X.String() + "." + e.Name }
func (e EIndex) String() string { return e.X.String() + "[" + e.I.String() + "]" }
func (e ESlice) String() string {
	lo, hi := "", ""
	if e.Lo != nil {
		lo = e.Lo.String()
	}
	if e.Hi != nil {
		hi = e.Hi.String()
	}
	return e.X.String() + "[" + lo + ":" + hi + "]"
}
func (e ECall) String() string {
	var a []string
	for _, x := range e.Args {
		a = append(a, x.String())
	}
	if e.Recv != nil {
		return e.Recv.String() + "." + e.Fn + "(" + strings.Join(a, ", ") + ")"
	}
	return e.Fn + "(" + strings.Join(a, ", ") + ")"
}
func (e EOld) String() string    { return "old(" + e.X.String() + ")" }
func (e EAssert) String() string { return e.X.String() + ".(" + e.T + ")" }
func (e EQuant) String() string {
	q := "exists"
	if e.Forall {
		q = "forall"
	}
	var v []string
	for _, x := range e.Vars {
		v = append(v, x.Name+" "+x.Type)
	}
	return "(" + q + " " + strings.Join(v, ", ") + " :: " + e.Body.String() + ")"
}

type tok struct {
	kind string // int str ident op eof
	text string
	pos  int
}

func lex(src string) ([]tok, error) {
	var toks []tok
	i := 0
	for i < len(src) {
		c := src[i]
		switch {
		case c == ' ' || c == '\t' || c == '\n' || c == '\r':
			i++
		case c >= '0' && c <= '9':
			j := i
			for j < len(src) && (src[j] >= '0' && src[j] <= '9' || src[j] == '_' || src[j] == 'x' || (src[j] >= 'a' && src[j] <= 'f' && j > i+1 && strings.HasPrefix(src[i:], "0x")) || (src[j] >= 'A' && src[j] <= 'F' && strings.HasPrefix(src[i:], "0x"))) {
				j++
			}
			// fraction: a real literal
			if j+1 < len(src) && src[j] == '.' && src[j+1] >= '0' && src[j+1] <= '9' {
				j++
				for j < len(src) && src[j] >= '0' && src[j] <= '9' {
					j++
				}
			}
			toks = append(toks, tok{"int", strings.ReplaceAll(src[i:j], "_", ""), i})
			i = j
		case c == '"':
			j := i + 1
			var sb strings.Builder
			for j < len(src) && src[j] != '"' {
				if src[j] == '\\' && j+1 < len(src) {
					j++
					switch src[j] {
					case 'n':
						sb.WriteByte('\n')
					case 't':
						sb.WriteByte('\t')
					case '0':
						sb.WriteByte(0)
					case 'x':
						if j+2 < len(src) {
							var b byte
							fmt.Sscanf(src[j+1:j+3], "%02x", &b)
							sb.WriteByte(b)
							j += 2
						}
					default:
						sb.WriteByte(src[j])
					}
				} else {
					sb.WriteByte(src[j])
				}
				j++
			}
			if j >= len(src) {
				return nil, fmt.Errorf("unterminated string at %d", i)
			}
			toks = append(toks, tok{"str", sb.String(), i})
			i = j + 1
		case c == '_' || c == '$' || unicode.IsLetter(rune(c)):
			j := i
			for j < len(src) {
				d := src[j]
				if d == '_' || d == '$' || d == '#' || unicode.IsLetter(rune(d)) || (d >= '0' && d <= '9') {
					j++
					continue
				}
				break
			}
			toks = append(toks, tok{"ident", src[i:j], i})
			i = j
		default:
			ops := []string{"<==>", "==>", "::", "==", "!=", "<=", ">=", "&&", "||", "<", ">", "+", "-", "*", "/", "%", "!", "(", ")", "[", "]", ",", ".", "?", ":"}
			matched := false
			for _, op := range ops {
				if strings.HasPrefix(src[i:], op) {
					toks = append(toks, tok{"op", op, i})
					i += len(op)
					matched = true
					break
				}
			}
			if !matched {
				return nil, fmt.Errorf("unexpected character %q at %d in %q", c, i, src)
			}
		}
	}
	toks = append(toks, tok{"eof", "", len(src)})
	return toks, nil
}

type parser struct {
	toks []tok
	p    int
	src  string
}

func ParseExpr(src string) (e Expr, err error) {
	toks, err := lex(src)
	if err != nil {
		return nil, err
	}
	ps := &parser{toks: toks, src: src}
	defer func() {
		if r := recover(); r != nil {
			err = fmt.Errorf("parse error in %q: %v", src, r)
		}
	}()
	e = ps.expr()
	if ps.peek().kind != "eof" {
		panic(fmt.Sprintf("trailing input at %d (%q)", ps.peek().pos, ps.peek().text))
	}
	return e, nil
}

func (p *parser) peek() tok { return p.toks[p.p] }
func (p *parser) next() tok { t := p.toks[p.p]; p.p++; return t }
func (p *parser) isOp(s string) bool {
	t := p.peek()
	return t.kind == "op" && t.text == s
}
func (p *parser) accept(s string) bool {
	if p.isOp(s) {
		p.p++
		return true
	}
	return false
}
func (p *parser) expect(s string) {
	if !p.accept(s) {
		panic(fmt.Sprintf("expected %q at %d, got %q", s, p.peek().pos, p.peek().text))
	}
}

func (p *parser) expr() Expr {
	t := p.peek()
	if t.kind == "ident" && (t.text == "forall" || t.text == "exists") {
		p.next()
		var vars []QVar
		for {
			n := p.next()
			if n.kind != "ident" {
				panic("quantifier variable expected")
			}
			ty := ""
			for !(p.isOp(",") || p.isOp("::") || p.peek().kind == "eof") {
				ty += p.next().text
			}
			if ty == "" {
				panic("quantifier type expected")
			}
			vars = append(vars, QVar{n.text, ty})
			if !p.accept(",") {
				break
			}
		}
		p.expect("::")
		body := p.expr()
		return EQuant{Forall: t.text == "forall", Vars: vars, Body: body}
	}
	return p.cond()
}

func (p *parser) cond() Expr {
	c := p.iff()
	if p.accept("?") {
		a := p.expr()
		p.expect(":")
		b := p.expr()
		return ECond{c, a, b}
	}
	return c
}

func (p *parser) iff() Expr {
	x := p.impl()
	for p.accept("<==>") {
		y := p.impl()
		x = EBin{"<==>", x, y}
	}
	return x
}

func (p *parser) impl() Expr {
	x := p.or()
	if p.accept("==>") {
		// right associative; the consequent may itself be a quantifier
		var y Expr
		t := p.peek()
		if t.kind == "ident" && (t.text == "forall" || t.text == "exists") {
			y = p.expr()
		} else {
			y = p.impl()
		}
		return EBin{"==>", x, y}
	}
	return x
}

func (p *parser) or() Expr {
	x := p.and()
	for p.accept("||") {
		y := p.and()
		x = EBin{"||", x, y}
	}
	return x
}

func (p *parser) and() Expr {
	x := p.cmp()
	for p.accept("&&") {
		var y Expr
		t := p.peek()
		if t.kind == "ident" && (t.text == "forall" || t.text == "exists") {
			y = p.expr()
		} else {
			y = p.cmp()
		}
		x = EBin{"&&", x, y}
	}
	return x
}

func (p *parser) cmp() Expr {
	x := p.add()
	for _, op := range []string{"==", "!=", "<=", ">=", "<", ">"} {
		if p.accept(op) {
			y := p.add()
			return EBin{op, x, y}
		}
	}
	return x
}

func (p *parser) add() Expr {
	x := p.mul()
	for {
		if p.accept("+") {
			x = EBin{"+", x, p.mul()}
		} else if p.accept("-") {
			x = EBin{"-", x, p.mul()}
		} else {
			return x
		}
	}
}

func (p *parser) mul() Expr {
	x := p.unary()
	for {
		if p.accept("*") {
			x = EBin{"*", x, p.unary()}
		} else if p.accept("/") {
			x = EBin{"/", x, p.unary()}
		} else if p.accept("%") {
			x = EBin{"%", x, p.unary()}
		} else {
			return x
		}
	}
}

func (p *parser) unary() Expr {
	if p.accept("!") {
		return EUn{"!", p.unary()}
	}
	if p.accept("-") {
		return EUn{"-", p.unary()}
	}
	if p.accept("*") {
		return EUn{"*", p.unary()}
	}
	return p.postfix()
}

func (p *parser) postfix() Expr {
	x := p.primary()
	for {
		switch {
		case p.accept("."):
			if p.accept("(") {
				t := p.next()
				name := t.text
				for p.accept(".") {
					name += "." + p.next().text
				}
				p.expect(")")
				x = EAssert{x, name}
				continue
			}
			t := p.next()
			if t.kind != "ident" {
				panic(fmt.Sprintf("field name expected at %d", t.pos))
			}
			if p.isOp("(") {
				p.next()
				args := p.args()
				// pkg.Func(args) where x is a bare identifier that is not a value is
				// resolved by the evaluator; we keep Recv and let it decide.
				x = ECall{Fn: t.text, Recv: x, Args: args}
			} else {
				x = EField{x, t.text}
			}
		case p.accept("["):
			if p.accept(":") {
				hi := p.expr()
				p.expect("]")
				x = ESlice{x, nil, hi}
				continue
			}
			i := p.expr()
			if p.accept(":") {
				if p.accept("]") {
					x = ESlice{x, i, nil}
					continue
				}
				hi := p.expr()
				p.expect("]")
				x = ESlice{x, i, hi}
				continue
			}
			p.expect("]")
			x = EIndex{x, i}
		default:
			return x
		}
	}
}

func (p *parser) args() []Expr {
	var args []Expr
	if p.accept(")") {
		return args
	}
	for {
		args = append(args, p.expr())
		if p.accept(")") {
			return args
		}
		p.expect(",")
	}
}

func (p *parser) primary() Expr {
	t := p.next()
	switch t.kind {
	case "int":
		return EInt{t.text}
	case "str":
		return EStr{t.text}
	case "ident":
		switch t.text {
		case "true":
			return EBool{true}
		case "false":
			return EBool{false}
		case "nil":
			return ENil{}
		case "old":
			p.expect("(")
			x := p.expr()
			p.expect(")")
			return EOld{x}
		}
		if p.isOp("(") {
			p.next()
			return ECall{Fn: t.text, Args: p.args()}
		}
		return EIdent{t.text}
	case "op":
		if t.text == "(" {
			x := p.expr()
			p.expect(")")
			return x
		}
	}
	panic(fmt.Sprintf("unexpected tok %q at %d", t.text, t.pos))
}
