package vc

// Symbolic execution of one SSA function over its acyclic (loop-cut) CFG.

import (
	"fmt"
	"os"
	"go/ast"
	"go/constant"
	"go/token"
	"go/types"
	"sort"
	"strconv"
	"strings"

	"golang.org/x/tools/go/ssa"
)

const (
	locField = iota
	locElem
	locCell
	locGlobal
)

type loc struct {
	kind    int
	base    string // object reference / array reference
	idx     string // element index
	mapName string
	sort    string     // sort of the stored value
	gt      types.Type // Go type of the stored value
}

type closure struct {
	fn       *ssa.Function
	bindings []TV
	bindLocs []*loc
}

type edge struct {
	from    *ssa.BasicBlock
	predIdx int
	st      *State
}

type loopInfo struct {
	header  *ssa.BasicBlock
	body    map[*ssa.BasicBlock]bool
	ordinal int
	mods    []string
	phiNew  map[*ssa.Phi]TV
	nBack   int
}

type frame struct {
	s        *Sym
	fn       *ssa.Function
	vals     map[ssa.Value]TV
	locs     map[ssa.Value]*loc
	clos     map[ssa.Value]*closure
	act      int
	depth    int
	isTop    bool
	defers   []*ssa.Defer
	loops    map[*ssa.BasicBlock]*loopInfo
	env0     *Env // contract environment of the top-level function (for invariants)
	parent   *frame
	atCount  map[string]int
	atHit    map[string]bool
	arrLen   map[ssa.Value]int // known length of slices made from local arrays (variadic calls)
	curBlock *ssa.BasicBlock
	// transparent: the frame of a helper that did not exist when the contract names
	// were recorded (code extracted from the function under contract). Its loops and
	// calls are numbered as if its body stood at the call site, its loops take the
	// contract's invariants, and names resolve in the helper first, then in the caller
	// at the call site.
	transparent bool
	site        *ssa.Call // call site of a transparent frame in its parent
	curSite     *ssa.Call
	ordBase     int // loops (virtual numbering) that precede this frame's body
}

func (s *Sym) newFrame(fn *ssa.Function, depth int) *frame {
	s.actCount++
	return &frame{s: s, fn: fn, vals: map[ssa.Value]TV{}, locs: map[ssa.Value]*loc{}, clos: map[ssa.Value]*closure{}, arrLen: map[ssa.Value]int{}, atCount: map[string]int{}, atHit: map[string]bool{}, act: s.actCount, depth: depth, loops: map[*ssa.BasicBlock]*loopInfo{}}
}

func (fr *frame) name(v ssa.Value) string {
	n := v.Name()
	if p, ok := v.(*ssa.Phi); ok && p.Comment != "" {
		n = p.Comment + "." + n
	}
	return fmt.Sprintf("a%d.%s", fr.act, n)
}

// ---------------------------------------------------------------------------
// values

func (fr *frame) constTV(c *ssa.Const, st *State) TV {
	s := fr.s
	t := c.Type()
	so := SortOf(t)
	if c.Value == nil { // nil / zero value
		return TV{T: zeroOf(so), S: so, GT: t}
	}
	switch so {
	case "Bool":
		return TV{T: strconv.FormatBool(constant.BoolVal(c.Value)), S: so, GT: t}
	case "Int":
		if c.Value.Kind() == constant.Int {
			return TV{T: intLit(c.Value.ExactString()), S: so, GT: t}
		}
		if c.Value.Kind() == constant.Float {
			f, _ := constant.Float64Val(c.Value)
			return TV{T: intLit(strconv.FormatInt(int64(f), 10)), S: so, GT: t}
		}
	case "Real":
		r := constant.ToFloat(c.Value)
		num := constant.Num(r)
		den := constant.Denom(r)
		if num.Kind() == constant.Int && den.Kind() == constant.Int {
			ns := num.ExactString()
			neg := strings.HasPrefix(ns, "-")
			ns = strings.TrimPrefix(ns, "-")
			term := fmt.Sprintf("(/ %s.0 %s.0)", ns, den.ExactString())
			if neg {
				term = "(- " + term + ")"
			}
			return TV{T: term, S: so, GT: t}
		}
		s.note("%s: float constant %s abstracted", FuncKey(fr.fn), c.Value.String())
		return s.freshValue(st, "fconst", t)
	case "Str":
		lit := constant.StringVal(c.Value)
		return TV{T: s.strConst(lit), S: so, GT: t, Lit: &lit}
	}
	s.note("%s: constant %s of type %s abstracted", FuncKey(fr.fn), c.String(), t)
	return s.freshValue(st, "const", t)
}

func (fr *frame) val(v ssa.Value, st *State) TV {
	switch x := v.(type) {
	case *ssa.Const:
		return fr.constTV(x, st)
	case *ssa.Global:
		l := fr.globalLoc(x)
		fr.locs[v] = l
		return TV{T: q("adr:" + l.mapName), S: "Int", GT: x.Type()}
	case *ssa.Function:
		n := q("fn:" + FuncKey(x))
		if !fr.s.declared[n] {
			fr.s.declared[n] = true
			fr.s.emit(fmt.Sprintf("(declare-const %s Int)", n))
			fr.s.emit(fmt.Sprintf("(assert (> %s 0))", n))
		}
		fr.clos[v] = &closure{fn: x}
		return TV{T: n, S: "Int", GT: x.Type()}
	case *ssa.Builtin:
		return TV{T: "0", S: "Int"}
	}
	if tv, ok := fr.vals[v]; ok {
		return tv
	}
	// value not computed (e.g. defined in an unreachable or skipped block)
	tv := fr.s.freshValue(st, fr.name(v)+".undef", v.Type())
	fr.vals[v] = tv
	return tv
}

func (fr *frame) globalLoc(g *ssa.Global) *loc {
	et := g.Type().(*types.Pointer).Elem()
	name := "G:" + g.Pkg.Pkg.Path() + "." + g.Name()
	s := fr.s
	if SortOf(et) == "Iface" && isErrorType(et) {
		// package-level error values: assumed assigned once at init, non-nil, pairwise distinct
		if !s.isErrGlobal(name) {
			s.errGlobals = append(s.errGlobals, name)
		}
	}
	// the address constant
	an := "adr:" + name
	if !s.declared[an] {
		s.declared[an] = true
		s.emit(fmt.Sprintf("(declare-const %s Int)", q(an)))
	}
	return &loc{kind: locGlobal, mapName: name, sort: SortOf(et), gt: et}
}

func isErrorType(t types.Type) bool {
	if n, ok := t.(*types.Named); ok {
		return n.Obj().Name() == "error" && n.Obj().Pkg() == nil
	}
	return false
}

// locOf returns the location descriptor of an address-valued SSA value.
func (fr *frame) locOf(addr ssa.Value, st *State) *loc {
	tv := fr.val(addr, st) // make sure it is evaluated (registers locs for globals)
	if l, ok := fr.locs[addr]; ok {
		return l
	}
	// arbitrary pointer value: a cell (scalar pointee) or an object (struct pointee)
	pt, ok := addr.Type().Underlying().(*types.Pointer)
	if !ok {
		fr.s.fail("%s: address of non-pointer type %s", FuncKey(fr.fn), addr.Type())
		return &loc{kind: locCell, base: tv.T, mapName: "C:Int", sort: "Int"}
	}
	et := pt.Elem()
	return &loc{kind: locCell, base: tv.T, mapName: CellMapName(et), sort: SortOf(et), gt: et}
}

func (fr *frame) load(st *State, l *loc) TV {
	s := fr.s
	if l.gt != nil {
		if _, isStruct := l.gt.Underlying().(*types.Struct); isStruct {
			return fr.loadStruct(st, l)
		}
	}
	var t string
	switch l.kind {
	case locField, locCell:
		m := s.getMap(st, l.mapName, mapSortOfElem(l.sort))
		t = fmt.Sprintf("(select %s %s)", m, l.base)
	case locElem:
		m := s.getMap(st, l.mapName, "(Array Int "+mapSortOfElem(l.sort)+")")
		t = fmt.Sprintf("(select (select %s %s) %s)", m, l.base, l.idx)
	case locGlobal:
		t = s.getMap(st, l.mapName, l.sort)
		if s.isErrGlobal(l.mapName) && !s.declared["errg:"+l.mapName] {
			s.declared["errg:"+l.mapName] = true
			s.emit(fmt.Sprintf("(assert (not (= (ityp %s) 0)))", t))
			for _, o := range s.errGlobals {
				if o != l.mapName && s.declared["errg:"+o] {
					s.emit(fmt.Sprintf("(assert (not (= %s %s)))", t, q(o+"@0")))
				}
			}
		}
	}
	tv := TV{T: t, S: l.sort, GT: l.gt}
	if l.sort != "Int" && l.sort != "Bool" && l.sort != "Real" || isRefLike(l.gt) {
		tv.T = s.define("ld", l.sort, t)
		s.assumeType(st, tv)
	}
	return tv
}

func isRefLike(t types.Type) bool {
	if t == nil {
		return false
	}
	switch t.Underlying().(type) {
	case *types.Pointer, *types.Map, *types.Chan:
		return true
	}
	return false
}

func (fr *frame) store(st *State, l *loc, v TV) {
	s := fr.s
	if l.gt != nil {
		if _, isStruct := l.gt.Underlying().(*types.Struct); isStruct {
			fr.storeStruct(st, l, v)
			return
		}
	}
	v = fr.coerce(v, l.sort)
	switch l.kind {
	case locField, locCell:
		ms := mapSortOfElem(l.sort)
		m := s.getMap(st, l.mapName, ms)
		s.setMap(st, l.mapName, ms, fmt.Sprintf("(store %s %s %s)", m, l.base, v.T))
	case locElem:
		ms := "(Array Int " + mapSortOfElem(l.sort) + ")"
		m := s.getMap(st, l.mapName, ms)
		s.setMap(st, l.mapName, ms, fmt.Sprintf("(store %s %s (store (select %s %s) %s %s))", m, l.base, m, l.base, l.idx, v.T))
	case locGlobal:
		s.getMap(st, l.mapName, l.sort)
		st.Maps[l.mapName] = s.define(l.mapName, l.sort, v.T)
	}
}

func (fr *frame) coerce(v TV, sort string) TV {
	if v.S == sort || v.S == "" {
		return v
	}
	if v.S == "Int" && sort == "Real" {
		return TV{T: "(to_real " + v.T + ")", S: "Real", GT: v.GT}
	}
	fr.s.note("%s: sort mismatch %s vs %s", FuncKey(fr.fn), v.S, sort)
	return v
}

// objectRef returns the reference of the struct object a location denotes
// (for struct-typed fields: the embedded sub-object).
func (fr *frame) objectRef(st *State, l *loc) string {
	s := fr.s
	switch l.kind {
	case locField:
		return s.subRef(l.mapName, l.base)
	case locCell:
		return l.base
	case locElem:
		m := s.getMap(st, l.mapName, "(Array Int "+mapSortOfElem("Int")+")")
		return fmt.Sprintf("(select (select %s %s) %s)", m, l.base, l.idx)
	case locGlobal:
		return q("adr:" + l.mapName)
	}
	return "0"
}

func (fr *frame) copyFields(st *State, structT types.Type, from, to string, depth int) {
	stt, ok := structT.Underlying().(*types.Struct)
	if !ok || depth > 2 {
		return
	}
	s := fr.s
	for i := 0; i < stt.NumFields(); i++ {
		name, ft := FieldMapName(structT, i)
		if _, nested := ft.Underlying().(*types.Struct); nested {
			fr.copyFields(st, ft, s.subRef(name, from), s.subRef(name, to), depth+1)
			continue
		}
		so := SortOf(ft)
		ms := mapSortOfElem(so)
		m := s.getMap(st, name, ms)
		s.setMap(st, name, ms, fmt.Sprintf("(store %s %s (select %s %s))", m, to, m, from))
	}
}

func (fr *frame) loadStruct(st *State, l *loc) TV {
	// value semantics: copy into a fresh immutable value object
	src := fr.objectRef(st, l)
	v := fr.s.allocRef(st, "sval")
	fr.copyFields(st, l.gt, src, v, 0)
	return TV{T: v, S: "Int", GT: l.gt}
}

func (fr *frame) storeStruct(st *State, l *loc, v TV) {
	dst := fr.objectRef(st, l)
	if l.kind == locElem {
		// slice of structs: elements are value objects; store the reference of a fresh copy
		c := fr.s.allocRef(st, "sval")
		fr.copyFields(st, l.gt, v.T, c, 0)
		ms := "(Array Int " + mapSortOfElem("Int") + ")"
		m := fr.s.getMap(st, l.mapName, ms)
		fr.s.setMap(st, l.mapName, ms, fmt.Sprintf("(store %s %s (store (select %s %s) %s %s))", m, l.base, m, l.base, l.idx, c))
		return
	}
	fr.copyFields(st, l.gt, v.T, dst, 0)
}

func (fr *frame) zeroInit(st *State, t types.Type, ref string, depth int) {
	s := fr.s
	switch u := t.Underlying().(type) {
	case *types.Struct:
		if depth > 2 {
			return
		}
		for i := 0; i < u.NumFields(); i++ {
			name, ft := FieldMapName(t, i)
			if _, nested := ft.Underlying().(*types.Struct); nested {
				fr.zeroInit(st, ft, s.subRef(name, ref), depth+1)
				continue
			}
			if _, arr := ft.Underlying().(*types.Array); arr {
				continue
			}
			so := SortOf(ft)
			ms := mapSortOfElem(so)
			m := s.getMap(st, name, ms)
			s.setMap(st, name, ms, fmt.Sprintf("(store %s %s %s)", m, ref, zeroOf(so)))
		}
	case *types.Array:
		es := SortOf(u.Elem())
		ms := "(Array Int " + mapSortOfElem(es) + ")"
		name := ElemMapName(u.Elem())
		m := s.getMap(st, name, ms)
		s.setMap(st, name, ms, fmt.Sprintf("(store %s %s %s)", m, ref, s.constArray("Int", es)))
	default:
		so := SortOf(t)
		name := CellMapName(t)
		ms := mapSortOfElem(so)
		m := s.getMap(st, name, ms)
		s.setMap(st, name, ms, fmt.Sprintf("(store %s %s %s)", m, ref, zeroOf(so)))
	}
}

// ---------------------------------------------------------------------------
// CFG preparation

func (fr *frame) prepareLoops() {
	fn := fr.fn
	// back edges u->h where h dominates u
	for _, b := range fn.Blocks {
		for _, su := range b.Succs {
			if su.Dominates(b) {
				li := fr.loops[su]
				if li == nil {
					li = &loopInfo{header: su, body: map[*ssa.BasicBlock]bool{su: true}, phiNew: map[*ssa.Phi]TV{}}
					fr.loops[su] = li
				}
				// natural loop: nodes reaching b without passing through su
				stack := []*ssa.BasicBlock{b}
				for len(stack) > 0 {
					n := stack[len(stack)-1]
					stack = stack[:len(stack)-1]
					if li.body[n] {
						continue
					}
					li.body[n] = true
					stack = append(stack, n.Preds...)
				}
			}
		}
	}
	if len(fr.loops) == 0 {
		return
	}
	// ordinals by matching AST loop statements
	astLoops := astLoopsOf(fn)
	for _, li := range fr.loops {
		var minP, maxP token.Pos
		for b := range li.body {
			for _, ins := range b.Instrs {
				if _, isDbg := ins.(*ssa.DebugRef); isDbg {
					continue
				}
				if _, isPhi := ins.(*ssa.Phi); isPhi {
					continue // a phi carries the position of the variable's declaration
				}
				p := ins.Pos()
				if p == token.NoPos {
					continue
				}
				if minP == token.NoPos || p < minP {
					minP = p
				}
				if p > maxP {
					maxP = p
				}
			}
		}
		best := -1
		for i, n := range astLoops {
			if minP != token.NoPos && n.Pos() <= minP && maxP <= n.End() {
				if best < 0 || (astLoops[best].End()-astLoops[best].Pos()) > (n.End()-n.Pos()) {
					best = i
				}
			}
		}
		li.ordinal = best + 1
		if os.Getenv("GOVC_DEBUG") != "" {
			fmt.Fprintf(os.Stderr, "loop header b%d of %s: ordinal %d (astLoops %d, min %v max %v)\n", li.header.Index, FuncKey(fn), li.ordinal, len(astLoops), fr.s.P.Fset.Position(minP), fr.s.P.Fset.Position(maxP))
		}
		// modifies set of the loop body
		mods := map[string]bool{}
		for b := range li.body {
			for _, ins := range b.Instrs {
				fr.s.P.instrMods(ins, mods, true)
			}
		}
		for k := range mods {
			li.mods = append(li.mods, k)
		}
		sort.Strings(li.mods)
	}
	// An outer loop whose body consists of an inner loop only has no positioned
	// instruction of its own and was matched to the inner statement: where two loops got
	// the same ordinal, the one that contains the other's header is the enclosing one and
	// takes the innermost AST loop that strictly encloses the shared statement.
	for changed := true; changed; {
		changed = false
		for _, outer := range fr.loops {
			for _, inner := range fr.loops {
				if outer == inner || outer.ordinal != inner.ordinal || outer.ordinal == 0 {
					continue
				}
				if !outer.body[inner.header] || inner.body[outer.header] {
					continue
				}
				cur := astLoops[outer.ordinal-1]
				best := -1
				for i, n := range astLoops {
					if n != cur && n.Pos() <= cur.Pos() && cur.End() <= n.End() {
						if best < 0 || (astLoops[best].End()-astLoops[best].Pos()) > (n.End()-n.Pos()) {
							best = i
						}
					}
				}
				if best >= 0 {
					outer.ordinal = best + 1
					changed = true
				}
			}
		}
	}
	// virtual numbering: loops of helpers extracted from the function under contract count
	// at their call site
	if fr.isTop || fr.transparent {
		for _, li := range fr.loops {
			if li.ordinal > 0 {
				li.ordinal = fr.ordBase + li.ordinal + fr.s.helperLoopsBefore(fr.fn, astLoops[li.ordinal-1].Pos())
			}
		}
	}
}

// astLoopsOf: the loop statements of fn in source order (closures excluded).
func astLoopsOf(fn *ssa.Function) []ast.Node {
	var astLoops []ast.Node
	if syn := fn.Syntax(); syn != nil {
		var body ast.Node
		switch x := syn.(type) {
		case *ast.FuncDecl:
			body = x.Body
		case *ast.FuncLit:
			body = x.Body
		}
		if body != nil {
			ast.Inspect(body, func(n ast.Node) bool {
				switch n.(type) {
				case *ast.FuncLit:
					return false
				case *ast.ForStmt, *ast.RangeStmt:
					astLoops = append(astLoops, n)
				}
				return true
			})
		}
	}
	return astLoops
}

// isNewHelper: a repository function without contract that the function under contract
// did not call when the contract names were recorded.
func (s *Sym) isNewHelper(callee *ssa.Function) bool {
	if callee == nil || callee.Blocks == nil || callee.Parent() != nil || callee.Pkg == nil || !IsRepoPath(callee.Pkg.Pkg.Path()) {
		return false
	}
	if s.P.Recorded == nil || s.Top == nil {
		return false
	}
	rec := s.P.Recorded[FuncKey(s.Top)]
	if rec == nil {
		return false
	}
	key := FuncKey(callee)
	if s.P.contractFor(key) != nil {
		return false
	}
	if _, known := s.P.Recorded[key]; known {
		return false
	}
	for _, c := range rec.Callees {
		if c == key {
			return false
		}
	}
	// it must be new altogether: not a function that some other recorded function called
	if s.P.knownCallee == nil {
		s.P.knownCallee = map[string]bool{}
		for _, r := range s.P.Recorded {
			for _, c := range r.Callees {
				s.P.knownCallee[c] = true
			}
		}
	}
	return !s.P.knownCallee[key]
}

type helperCall struct {
	pos    token.Pos
	callee *ssa.Function
}

func (s *Sym) newHelperCalls(fn *ssa.Function) []helperCall {
	var out []helperCall
	for _, b := range fn.Blocks {
		for _, in := range b.Instrs {
			c, ok := in.(*ssa.Call)
			if !ok {
				continue
			}
			if ce := c.Common().StaticCallee(); ce != nil && s.isNewHelper(ce) {
				out = append(out, helperCall{c.Pos(), ce})
			}
		}
	}
	return out
}

func (s *Sym) loopCount(fn *ssa.Function, depth int) int {
	if depth > maxInlineDepth {
		return 0
	}
	n := len(astLoopsOf(fn))
	for _, h := range s.newHelperCalls(fn) {
		n += s.loopCount(h.callee, depth+1)
	}
	return n
}

// helperLoopsBefore: loops inside helpers called from fn before position p.
func (s *Sym) helperLoopsBefore(fn *ssa.Function, p token.Pos) int {
	n := 0
	for _, h := range s.newHelperCalls(fn) {
		if h.pos < p {
			n += s.loopCount(h.callee, 1)
		}
	}
	return n
}

func (s *Sym) matchesCallee(k, callee string) bool {
	return k == callee || strings.HasSuffix(k, "."+callee) || strings.HasSuffix(k, "/"+callee)
}

// callCount: calls of callee in fn and in the helpers extracted from it.
func (s *Sym) callCount(fn *ssa.Function, callee string, before token.Pos, depth int) int {
	if depth > maxInlineDepth {
		return 0
	}
	n := 0
	for _, b := range fn.Blocks {
		for _, in := range b.Instrs {
			c, ok := in.(*ssa.Call)
			if !ok {
				continue
			}
			if before != token.NoPos && c.Pos() >= before {
				continue
			}
			if s.matchesCallee(s.calleeKeyOf(c.Common()), callee) {
				n++
			}
			if ce := c.Common().StaticCallee(); ce != nil && s.isNewHelper(ce) {
				n += s.callCount(ce, callee, token.NoPos, depth+1)
			}
		}
	}
	return n
}

// resolveName: a source-level name at a program point of this frame; in the frame of an
// extracted helper the helper's own parameters and locals first, then the caller's at
// the call site.
func (fr *frame) resolveName(name string, blk *ssa.BasicBlock, limit ssa.Instruction, st *State) (TV, bool) {
	if !fr.isTop {
		for _, p := range fr.fn.Params {
			if p.Name() == name {
				return fr.val(p, st), true
			}
		}
		for _, fv := range fr.fn.FreeVars {
			if fv.Name() == name {
				if l, ok := fr.locs[fv]; ok {
					return fr.load(st, l), true
				}
				return fr.val(fv, st), true
			}
		}
	}
	if v, ok := fr.lookupLocalBefore(name, blk, limit, st); ok {
		return v, true
	}
	if (fr.transparent || fr.fn.Parent() != nil) && fr.parent != nil && fr.site != nil && fr.site.Parent() == fr.parent.fn {
		return fr.parent.resolveName(name, fr.site.Block(), fr.site, st)
	}
	return TV{}, false
}

// instrMods adds the heap maps one instruction may modify (transitively through calls).
func (P *Program) instrMods(ins ssa.Instruction, out map[string]bool, includeLocal bool) {
	switch x := ins.(type) {
	case *ssa.Store:
		if includeLocal {
			storeTargetsLocal(x.Addr, out)
		} else {
			storeTargets(x.Addr, out)
		}
	case *ssa.MapUpdate:
		if mt, ok := x.Map.Type().Underlying().(*types.Map); ok {
			d, v := MapMapNames(mt)
			out[d] = true
			out[v] = true
		}
	case *ssa.Next:
		if r, ok := x.Iter.(*ssa.Range); ok && !x.IsString && includeLocal {
			if _, isMap := r.X.Type().Underlying().(*types.Map); isMap {
				out[RangeVarName(r)] = true
			}
		}
	case ssa.CallInstruction:
		tmp := &ssa.Function{}
		_ = tmp
		d, callees := P.callMods(x.Common())
		for k := range d {
			out[k] = true
		}
		for _, c := range callees {
			for _, k := range P.ModsOf(c) {
				out[k] = true
			}
		}
	}
}

// storeTargetsLocal is storeTargets that also reports stores into local allocations.
func storeTargetsLocal(addr ssa.Value, out map[string]bool) {
	switch a := addr.(type) {
	case *ssa.FieldAddr:
		name, ft := FieldMapName(a.X.Type().Underlying().(*types.Pointer).Elem(), a.Field)
		addStructOrField(name, ft, out)
	case *ssa.Alloc:
		et := a.Type().Underlying().(*types.Pointer).Elem()
		if st, ok := et.Underlying().(*types.Struct); ok {
			for i := 0; i < st.NumFields(); i++ {
				n, ft := FieldMapName(et, i)
				addStructOrField(n, ft, out)
			}
			return
		}
		if isScalarAlloc(a) && !allocEscapes(a, 0) {
			out[LocalCellName(a)] = true
			return
		}
		out[CellMapName(et)] = true
	default:
		storeTargets(addr, out)
	}
}

// callMods: direct effects of a call instruction plus callees to add transitively.
func (P *Program) callMods(c *ssa.CallCommon) (map[string]bool, []*ssa.Function) {
	// reuse directMods' logic on a synthetic single-call basis
	out := map[string]bool{}
	var callees []*ssa.Function
	if c.IsInvoke() {
		key := IfaceMethodKey(c.Value.Type(), c.Method)
		if fc := P.contractFor(key); fc != nil && (fc.Trusted || fc.IsIface) {
			P.contractMods(fc, c, out)
			return out, nil
		}
		return out, P.implementers(c.Value.Type(), c.Method)
	}
	if b, ok := c.Value.(*ssa.Builtin); ok {
		switch b.Name() {
		case "copy":
			if st, ok := c.Args[0].Type().Underlying().(*types.Slice); ok {
				if SortOf(st) == "Bytes" {
					out["BYTESWRITE"] = true
				} else {
					out[ElemMapName(st.Elem())] = true
				}
			}
		case "delete":
			if mt, ok := c.Args[0].Type().Underlying().(*types.Map); ok {
				d, v := MapMapNames(mt)
				out[d] = true
				out[v] = true
			}
		}
		return out, nil
	}
	callee := c.StaticCallee()
	if callee == nil {
		out[ModStar] = true
		return out, nil
	}
	if fc := P.contractFor(FuncKey(callee)); fc != nil && (fc.Trusted || fc.Pure || fc.NoEffects) {
		P.contractMods(fc, c, out)
		for _, g := range fc.Sets {
			out["H:"+g.Name] = true
		}
		return out, nil
	}
	if callee.Blocks != nil && (callee.Pkg != nil && IsRepoPath(callee.Pkg.Pkg.Path()) || callee.Parent() != nil) {
		callees = append(callees, callee)
	}
	return out, callees
}

// ---------------------------------------------------------------------------
// main loop

type retEdge struct {
	st   *State
	vals []TV
}

// run executes the function from the given entry state and returns the merged
// return values and state (Guard "false" if no path returns).
func (fr *frame) run(st *State) ([]TV, *State) {
	fn := fr.fn
	s := fr.s
	fr.prepareLoops()
	isBack := func(from, to *ssa.BasicBlock) bool { return to.Dominates(from) && fr.loops[to] != nil && fr.loops[to].body[from] }
	// reverse postorder ignoring back edges
	var order []*ssa.BasicBlock
	seen := map[*ssa.BasicBlock]bool{}
	var dfs func(b *ssa.BasicBlock)
	dfs = func(b *ssa.BasicBlock) {
		seen[b] = true
		for _, su := range b.Succs {
			if !seen[su] && !isBack(b, su) {
				dfs(su)
			}
		}
		order = append(order, b)
	}
	dfs(fn.Blocks[0])
	for i, j := 0, len(order)-1; i < j; i, j = i+1, j-1 {
		order[i], order[j] = order[j], order[i]
	}
	incoming := map[*ssa.BasicBlock][]edge{}
	incoming[fn.Blocks[0]] = []edge{{from: nil, predIdx: -1, st: st}}
	var rets []retEdge
	usedPred := map[[2]*ssa.BasicBlock]int{}
	predIndex := func(from, to *ssa.BasicBlock) int {
		k := [2]*ssa.BasicBlock{from, to}
		n := usedPred[k]
		cnt := 0
		for i, p := range to.Preds {
			if p == from {
				if cnt == n {
					usedPred[k] = n + 1
					return i
				}
				cnt++
			}
		}
		return -1
	}
	for _, b := range order {
		ins := incoming[b]
		if len(ins) == 0 {
			continue
		}
		if s.Err != nil {
			return nil, &State{Guard: "false", Maps: map[string]string{}}
		}
		fr.curBlock = b
		var sts []*State
		for _, e := range ins {
			sts = append(sts, e.st)
		}
		cur := s.merge(sts)
		// phis
		var phis []*ssa.Phi
		for _, in := range b.Instrs {
			if p, ok := in.(*ssa.Phi); ok {
				phis = append(phis, p)
			} else {
				break
			}
		}
		phiVal := func(p *ssa.Phi, es []edge) TV {
			var gs, vs []string
			var tv TV
			for _, e := range es {
				v := fr.val(p.Edges[e.predIdx], e.st)
				v = fr.coerce(v, SortOf(p.Type()))
				gs = append(gs, e.st.Guard)
				vs = append(vs, v.T)
				tv = v
			}
			so := SortOf(p.Type())
			return TV{T: s.define(fr.name(p), so, iteChain(gs, vs)), S: so, GT: p.Type(), Tup: tv.Tup}
		}
		li := fr.loops[b]
		if li == nil {
			newVals := map[*ssa.Phi]TV{}
			for _, p := range phis {
				newVals[p] = phiVal(p, ins)
			}
			for p, v := range newVals {
				fr.vals[p] = v
			}
		} else {
			// ---- loop cut ----
			entryVals := map[*ssa.Phi]TV{}
			for _, p := range phis {
				entryVals[p] = phiVal(p, ins)
			}
			invs := fr.invariants(li)
			for _, c := range invs {
				env := fr.loopEnv(li, cur, entryVals)
				g := s.evalBool(env, c.E)
				s.addObl(&Obligation{Name: fmt.Sprintf("%s#loop%d:established:%s", shortKey(FuncKey(s.Top)), li.ordinal, c.Label), Props: fr.propsOf(c), Kind: "loop-established", Label: c.Label, Goal: fmt.Sprintf("(=> %s %s)", cur.Guard, g), Src: c.Src})
			}
			// havoc loop-modified state
			ghostFrames := fr.loopGhostFrames(li, cur)
			ghostBefore := map[string]string{}
			for m := range ghostFrames {
				if s.mapSort[m] == "" {
					delete(ghostFrames, m)
					continue
				}
				ghostBefore[m] = s.getMap(cur, m, s.mapSort[m])
			}
			topBefore := s.top(cur)
			s.havoc(cur, li.mods, "loop")
			{
				var ms []string
				for m := range ghostFrames {
					ms = append(ms, m)
				}
				sort.Strings(ms)
				for _, m := range ms {
					if s.mapSort[m] == "" {
						continue
					}
					after := s.getMap(cur, m, s.mapSort[m])
					conds := []string{fmt.Sprintf("(<= x %s)", topBefore)}
					for _, k := range ghostFrames[m] {
						conds = append(conds, fmt.Sprintf("(not (= x %s))", k))
					}
					s.assume(cur, fmt.Sprintf("(forall ((x Int)) (! (=> %s (= (select %s x) (select %s x))) :pattern ((select %s x))))", mkAnd(conds), after, ghostBefore[m], after))
				}
			}
			for _, p := range phis {
				nv := s.freshValue(cur, fr.name(p)+".inv", p.Type())
				li.phiNew[p] = nv
				fr.vals[p] = nv
			}
			for _, c := range invs {
				env := fr.loopEnv(li, cur, li.phiNew)
				s.assume(cur, s.evalBool(env, c.E))
			}
			// rangeindex phis: -1 <= idx
			for _, p := range phis {
				if p.Comment == "rangeindex" {
					s.assume(cur, fmt.Sprintf("(>= %s (- 1))", fr.vals[p].T))
				}
			}
		}
		// body
		alive := true
		for _, in := range b.Instrs {
			if _, ok := in.(*ssa.Phi); ok {
				continue
			}
			switch x := in.(type) {
			case *ssa.If:
				c := fr.val(x.Cond, cur)
				t := cur.clone()
				t.Guard = s.define("g", "Bool", mkAnd([]string{cur.Guard, c.T}))
				f := cur.clone()
				f.Guard = s.define("g", "Bool", mkAnd([]string{cur.Guard, mkNot(c.T)}))
				for i, stt := range []*State{t, f} {
					to := b.Succs[i]
					pi := predIndex(b, to)
					if isBack(b, to) {
						fr.backEdge(fr.loops[to], stt, pi)
					} else {
						incoming[to] = append(incoming[to], edge{from: b, predIdx: pi, st: stt})
					}
				}
				alive = false
			case *ssa.Jump:
				to := b.Succs[0]
				pi := predIndex(b, to)
				if isBack(b, to) {
					fr.backEdge(fr.loops[to], cur, pi)
				} else {
					incoming[to] = append(incoming[to], edge{from: b, predIdx: pi, st: cur})
				}
				alive = false
			case *ssa.Return:
				var vs []TV
				for _, r := range x.Results {
					vs = append(vs, fr.val(r, cur))
				}
				rets = append(rets, retEdge{st: cur, vals: vs})
				alive = false
			case *ssa.Panic:
				alive = false
			default:
				fr.instr(in, cur)
			}
			if !alive {
				break
			}
		}
	}
	if len(rets) == 0 {
		return nil, &State{Guard: "false", Maps: st.clone().Maps}
	}
	var sts []*State
	for _, r := range rets {
		sts = append(sts, r.st)
	}
	out := s.merge(sts)
	n := len(rets[0].vals)
	res := make([]TV, n)
	resTypes := fn.Signature.Results()
	for i := 0; i < n; i++ {
		var gs, vs []string
		so := SortOf(resTypes.At(i).Type())
		for _, r := range rets {
			gs = append(gs, r.st.Guard)
			vs = append(vs, fr.coerce(r.vals[i], so).T)
		}
		res[i] = TV{T: s.define(fmt.Sprintf("a%d.ret%d", fr.act, i), so, iteChain(gs, vs)), S: so, GT: resTypes.At(i).Type()}
	}
	return res, out
}

func shortKey(k string) string {
	// drop the module path prefix for readable obligation names
	k = strings.TrimPrefix(k, ModulePath+"/")
	return k
}

func (fr *frame) propsOf(c Clause) []string {
	if c.Prop != "" {
		return []string{c.Prop}
	}
	if fr.s.FC != nil {
		return fr.s.FC.Props
	}
	return nil
}

func (fr *frame) invariants(li *loopInfo) []Clause {
	if !(fr.isTop || fr.transparent) || fr.s.FC == nil {
		return nil
	}
	return fr.s.FC.Loops[li.ordinal]
}

func (fr *frame) backEdge(li *loopInfo, st *State, predIdx int) {
	s := fr.s
	invs := fr.invariants(li)
	if len(invs) == 0 {
		return
	}
	vals := map[*ssa.Phi]TV{}
	for _, in := range li.header.Instrs {
		p, ok := in.(*ssa.Phi)
		if !ok {
			break
		}
		vals[p] = fr.val(p.Edges[predIdx], st)
	}
	li.nBack++
	for _, c := range invs {
		env := fr.loopEnv(li, st, vals)
		g := s.evalBool(env, c.E)
		s.addObl(&Obligation{Name: fmt.Sprintf("%s#loop%d:preserved:%s@%d", shortKey(FuncKey(s.Top)), li.ordinal, c.Label, li.nBack), Props: fr.propsOf(c), Kind: "loop-preserved", Label: c.Label, Goal: fmt.Sprintf("(=> %s %s)", st.Guard, g), Src: c.Src})
	}
}

// loopEnv: environment for evaluating an invariant at a loop header with the
// given values for the header's phis.
func (fr *frame) loopEnv(li *loopInfo, st *State, phiVals map[*ssa.Phi]TV) *Env {
	env := fr.env0.child()
	env.st = st
	env.localFirst = fr.transparent
	env.local = func(name string) (TV, bool) {
		for p, v := range phiVals {
			if p.Comment == name {
				return v, true
			}
		}
		if name == "$i" {
			for p, v := range phiVals {
				if p.Comment == "rangeindex" {
					return TV{T: fmt.Sprintf("(+ %s 1)", v.T), S: "Int"}, true
				}
			}
		}
		if name == "$i" {
			// a counting loop written with an explicit index (i := 0; ...; i++): the number of
			// completed iterations is that index - the only integer variable of the header that
			// starts at 0 and grows by exactly 1 on every way round
			var found []TV
			for p, v := range phiVals {
				if p.Block() != li.header || p.Comment == "rangeindex" {
					continue
				}
				if b, ok := p.Type().Underlying().(*types.Basic); !ok || b.Info()&types.IsInteger == 0 {
					continue
				}
				counting := len(p.Edges) >= 2
				for ei, e := range p.Edges {
					pred := li.header.Preds[ei]
					if li.body[pred] {
						inc, ok := e.(*ssa.BinOp)
						if !ok || inc.Op != token.ADD || inc.X != ssa.Value(p) {
							counting = false
							break
						}
						c, ok := inc.Y.(*ssa.Const)
						if !ok || c.Value == nil || c.Value.ExactString() != "1" {
							counting = false
							break
						}
					} else {
						c, ok := e.(*ssa.Const)
						if !ok || c.Value == nil || c.Value.ExactString() != "0" {
							counting = false
							break
						}
					}
				}
				if counting {
					found = append(found, v)
				}
			}
			if len(found) == 1 {
				return found[0], true
			}
		}
		if name == "$range" {
			// the slice (or string) this range loop iterates over: its value was taken once,
			// before the loop, and does not follow later assignments to the ranged variable
			for _, in := range li.header.Instrs {
				p, ok := in.(*ssa.Phi)
				if !ok {
					break
				}
				if p.Comment != "rangeindex" {
					continue
				}
				for _, ref := range *p.Referrers() {
					inc, ok := ref.(*ssa.BinOp)
					if !ok || inc.Op != token.ADD {
						continue
					}
					for _, r2 := range *inc.Referrers() {
						cmp, ok := r2.(*ssa.BinOp)
						if !ok || cmp.Op != token.LSS {
							continue
						}
						if call, ok := cmp.Y.(*ssa.Call); ok {
							if b, ok := call.Call.Value.(*ssa.Builtin); ok && b.Name() == "len" && len(call.Call.Args) == 1 {
								if v, ok := fr.vals[call.Call.Args[0]]; ok {
									return v, true
								}
								return fr.val(call.Call.Args[0], st), true
							}
						}
					}
				}
			}
		}
		if strings.HasPrefix(name, "$i#") {
			// $i#N: iterations completed by the range loop with ordinal N (an enclosing loop)
			if n, err := strconv.Atoi(name[len("$i#"):]); err == nil {
				for f := fr; f != nil; f = f.parent {
					for _, l := range f.loops {
						if l.ordinal != n {
							continue
						}
						for _, in := range l.header.Instrs {
							p, ok := in.(*ssa.Phi)
							if !ok {
								break
							}
							if p.Comment == "rangeindex" {
								if v, ok := f.vals[p]; ok {
									return TV{T: fmt.Sprintf("(+ %s 1)", v.T), S: "Int"}, true
								}
							}
						}
					}
					if !f.transparent {
						break
					}
				}
			}
		}
		if name == "$visited" || strings.HasPrefix(name, "$visited#") {
			// the set of keys yielded so far by the map iteration of this loop
			// ($visited#N: of the map-range loop with ordinal N, e.g. an enclosing one)
			target := li
			if strings.HasPrefix(name, "$visited#") {
				target = nil
				if n, err := strconv.Atoi(name[len("$visited#"):]); err == nil {
					for f := fr; f != nil; f = f.parent {
						for _, l := range f.loops {
							if l.ordinal == n {
								target = l
							}
						}
						if !f.transparent {
							break
						}
					}
				}
			}
			if target != nil {
				visitedOf := func(b *ssa.BasicBlock) (TV, bool) {
					for _, in := range b.Instrs {
						if nx, ok := in.(*ssa.Next); ok && !nx.IsString {
							if r, ok := nx.Iter.(*ssa.Range); ok {
								if mt, isMap := r.X.Type().Underlying().(*types.Map); isMap {
									rs := "(Array " + SortOf(mt.Key()) + " Bool)"
									return TV{T: fr.s.getMap(st, RangeVarName(r), rs), S: rs}, true
								}
							}
						}
					}
					return TV{}, false
				}
				if v, ok := visitedOf(target.header); ok {
					return v, true
				}
				// deterministic order: the lowest-numbered block of the body
				var blocks []*ssa.BasicBlock
				for b := range target.body {
					blocks = append(blocks, b)
				}
				sort.Slice(blocks, func(i, j int) bool { return blocks[i].Index < blocks[j].Index })
				for _, b := range blocks {
					if v, ok := visitedOf(b); ok {
						return v, true
					}
				}
			}
		}
		if fr.transparent {
			if v, ok := fr.resolveName(name, li.header, nil, st); ok {
				return v, true
			}
		}
		if v, ok := fr.lookupLocal(name, li.header, st); ok {
			return v, true
		}
		// renamed local: if exactly one loop-carried variable is not mentioned by any
		// invariant of this loop, the unresolved name is bound to it (only where no record of
		// the contract's names exists; see names.go)
		if fr.s.P.Recorded != nil && fr.s.P.Recorded[FuncKey(fr.s.Top)] != nil {
			return TV{}, false
		}
		used := map[string]bool{}
		for _, c := range fr.invariants(li) {
			identsOf(c.E, used)
		}
		var cand []TV
		for p, v := range phiVals {
			if p.Comment != "rangeindex" && p.Comment != "" && !used[p.Comment] {
				cand = append(cand, v)
			}
		}
		if len(cand) == 1 {
			fr.s.note("%s: invariant variable %s not found; bound to the only unmentioned loop-carried variable", FuncKey(fr.fn), name)
			return cand[0], true
		}
		return TV{}, false
	}
	return env
}

func identsOf(e Expr, out map[string]bool) {
	switch x := e.(type) {
	case EIdent:
		out[x.Name] = true
	case EUn:
		identsOf(x.X, out)
	case EBin:
		identsOf(x.X, out)
		identsOf(x.Y, out)
	case ECond:
		identsOf(x.C, out)
		identsOf(x.A, out)
		identsOf(x.B, out)
	case EField:
		identsOf(x.X, out)
	case EIndex:
		identsOf(x.X, out)
		identsOf(x.I, out)
	case ESlice:
		identsOf(x.X, out)
	case ECall:
		if x.Recv != nil {
			identsOf(x.Recv, out)
		}
		for _, a := range x.Args {
			identsOf(a, out)
		}
	case EOld:
		identsOf(x.X, out)
	case EAssert:
		identsOf(x.X, out)
	case EQuant:
		identsOf(x.Body, out)
	}
}

// lookupLocal resolves a source-level variable name at a program point via DebugRef.
func (fr *frame) lookupLocal(name string, at *ssa.BasicBlock, st *State) (TV, bool) {
	return fr.lookupLocalBefore(name, at, nil, st)
}

// lookupLocalBefore: like lookupLocal, but inside block at only DebugRefs before
// instruction limit count.
func (fr *frame) lookupLocalBefore(name string, at *ssa.BasicBlock, limit ssa.Instruction, st *State) (TV, bool) {
	// candidate definitions: DebugRefs of the identifier and phis named after the
	// variable (a loop-carried variable's current value is the phi, even if the
	// last textual reference precedes the loop); the latest one in dominance order wins
	var bestVal ssa.Value
	var bestAddr bool
	var bestBlock *ssa.BasicBlock
	take := func(b *ssa.BasicBlock, v ssa.Value, isAddr bool) {
		if bestBlock == nil || bestBlock == b || bestBlock.Dominates(b) {
			bestVal, bestAddr, bestBlock = v, isAddr, b
		}
	}
	for _, b := range fr.fn.Blocks {
		if !(b == at || b.Dominates(at)) {
			continue
		}
		for _, in := range b.Instrs {
			if b == at && limit != nil && in == limit {
				break
			}
			if p, ok := in.(*ssa.Phi); ok {
				if p.Comment == name {
					if _, computed := fr.vals[p]; computed {
						take(b, p, false)
					}
				}
				continue
			}
			d, ok := in.(*ssa.DebugRef)
			if !ok {
				continue
			}
			id, ok := d.Expr.(*ast.Ident)
			if !ok || id.Name != name {
				continue
			}
			if _, computed := fr.vals[d.X]; !computed {
				if _, isC := d.X.(*ssa.Const); !isC {
					if _, isP := d.X.(*ssa.Parameter); !isP {
						continue
					}
				}
			}
			if os.Getenv("GOVC_DEBUG") == "2" {
				fmt.Fprintf(os.Stderr, "  cand %s b%d X=%s (%T) pos=%v\n", name, b.Index, d.X.Name(), d.X, fr.s.P.Fset.Position(d.Pos()))
			}
			take(b, d.X, d.IsAddr)
		}
	}
	// go/ssa (x/tools v0.29) records the zero value at the declaration of a variable
	// initialised by a composite literal; if the best dominating reference is such a
	// constant, use the value that later references of the identifier agree on,
	// provided it is defined before this point
	if c, isConst := bestVal.(*ssa.Const); bestVal == nil || (isConst && c.Value == nil) {
		var alt ssa.Value
		ambiguous := false
		for _, b := range fr.fn.Blocks {
			for _, in := range b.Instrs {
				d, ok := in.(*ssa.DebugRef)
				if !ok || d.IsAddr {
					continue
				}
				id, ok := d.Expr.(*ast.Ident)
				if !ok || id.Name != name {
					continue
				}
				vi, ok := d.X.(ssa.Instruction)
				if !ok {
					continue
				}
				if _, isPhi := d.X.(*ssa.Phi); isPhi {
					continue
				}
				db := vi.Block()
				if db == nil || !(db.Dominates(at)) || db == at {
					continue
				}
				if _, computed := fr.vals[d.X]; !computed {
					continue
				}
				if alt != nil && alt != d.X {
					ambiguous = true
				}
				alt = d.X
			}
		}
		if alt != nil && !ambiguous {
			bestVal, bestAddr = alt, false
			bestBlock = alt.(ssa.Instruction).Block()
		}
	}
	if bestVal == nil {
		return fr.lookupRenamed(name, at, limit, st)
	}
	if os.Getenv("GOVC_DEBUG") != "" {
		fmt.Fprintf(os.Stderr, "lookup %s at b%d -> %s (%T) in b%d = %v\n", name, at.Index, bestVal.Name(), bestVal, bestBlock.Index, fr.vals[bestVal].T)
	}
	if bestAddr {
		l := fr.locOf(bestVal, st)
		return fr.load(st, l), true
	}
	return fr.val(bestVal, st), true
}

// singleDefLocal resolves a source variable for postconditions: only variables that
// are assigned exactly once (every reference of the identifier names the same SSA
// value, never through an address) qualify, so the value does not depend on the
// return site. On paths that leave before the definition the term is unconstrained.
func (fr *frame) singleDefLocal(name string, st *State) (TV, bool) {
	var val ssa.Value
	for _, b := range fr.fn.Blocks {
		for _, in := range b.Instrs {
			if p, ok := in.(*ssa.Phi); ok && p.Comment == name {
				return TV{}, false
			}
			d, ok := in.(*ssa.DebugRef)
			if !ok {
				continue
			}
			id, ok := d.Expr.(*ast.Ident)
			if !ok || id.Name != name {
				continue
			}
			if d.IsAddr {
				return TV{}, false
			}
			if c, isC := d.X.(*ssa.Const); isC && c.Value == nil {
				continue // zero value recorded at a declaration
			}
			if val != nil && val != d.X {
				return TV{}, false
			}
			val = d.X
		}
	}
	if val == nil {
		return TV{}, false
	}
	if _, computed := fr.vals[val]; !computed {
		return TV{}, false
	}
	return fr.val(val, st), true
}

// lookupRenamed: a declared local (`local name type`) that no longer exists under
// its name is bound to the only visible source variable of the declared type that
// is not itself a declared local or a parameter (tolerates renamed locals).
func (fr *frame) lookupRenamed(name string, at *ssa.BasicBlock, limit ssa.Instruction, st *State) (TV, bool) {
	if fr.s.FC == nil || !fr.isTop {
		return TV{}, false
	}
	// where the names the contract was written against are recorded, renamed variables are
	// resolved through that record (names.go); guessing by type could bind the name to an
	// unrelated variable of the same type when the declared one is gone
	if fr.s.P.Recorded != nil && fr.s.P.Recorded[FuncKey(fr.s.Top)] != nil {
		return TV{}, false
	}
	var want string
	declared := map[string]bool{}
	for _, l := range fr.s.FC.Locals {
		declared[l.Name] = true
		if l.Name == name {
			want = l.Type
		}
	}
	if want == "" {
		return TV{}, false
	}
	_, wt := fr.s.P.specType(want)
	if wt == nil {
		return TV{}, false
	}
	for _, p := range fr.fn.Params {
		declared[p.Name()] = true
	}
	cands := map[string]bool{}
	for _, b := range fr.fn.Blocks {
		if !(b == at || b.Dominates(at)) {
			continue
		}
		for _, in := range b.Instrs {
			if b == at && limit != nil && in == limit {
				break
			}
			d, ok := in.(*ssa.DebugRef)
			if !ok {
				continue
			}
			id, ok := d.Expr.(*ast.Ident)
			if !ok || declared[id.Name] || id.Name == "_" {
				continue
			}
			vt := d.X.Type()
			if d.IsAddr {
				if pt, ok := vt.Underlying().(*types.Pointer); ok {
					vt = pt.Elem()
				}
			}
			if types.Identical(vt, wt) {
				cands[id.Name] = true
			}
		}
	}
	if len(cands) != 1 {
		return TV{}, false
	}
	for n := range cands {
		fr.s.note("%s: declared local %s not found; bound to %s, the only other visible variable of type %s", FuncKey(fr.fn), name, n, want)
		return fr.lookupLocalBefore(n, at, limit, st)
	}
	return TV{}, false
}
