package vc

import (
	"encoding/json"
	"go/types"
	"os"
	"sort"

	"golang.org/x/tools/go/ssa"
)

// Contracts live in a separate comment-only file, so a rename of a parameter or a
// local in the code does not rename the identifier in the contract. The names a
// contract was written against are recorded mechanically (`govc names`) from the
// tree the contracts were checked on; when a recorded name is missing in the current
// source, it is mapped to the current name of the same parameter position or of the
// same local declaration (by declaration order and type). Only names are mapped:
// the obligations are still generated from the current code.

// FuncNames: the source-level names of one function.
type FuncNames struct {
	Params  []string    `json:"params"`  // receiver first
	Results []string    `json:"results"` // "" for unnamed
	Locals  [][2]string `json:"locals"`  // (name, type) in declaration order, closures included
	Callees []string    `json:"callees"` // static repo callees (closures included), sorted
}

func typeStr(t types.Type) string {
	return types.TypeString(t, func(p *types.Package) string { return p.Path() })
}

// CurrentNames computes the names of fn from the current source.
func (P *Program) CurrentNames(fn *ssa.Function) *FuncNames {
	n := &FuncNames{}
	isParam := map[types.Object]bool{}
	for _, p := range fn.Params {
		n.Params = append(n.Params, p.Name())
		if o := p.Object(); o != nil {
			isParam[o] = true
		}
	}
	res := fn.Signature.Results()
	for i := 0; i < res.Len(); i++ {
		n.Results = append(n.Results, res.At(i).Name())
		isParam[res.At(i)] = true
	}
	seen := map[types.Object]bool{}
	var vars []*types.Var
	callees := map[string]bool{}
	var scan func(f *ssa.Function)
	scan = func(f *ssa.Function) {
		for _, p := range f.Params {
			if f != fn {
				if o, ok := p.Object().(*types.Var); ok && o != nil && !seen[o] {
					seen[o] = true
					vars = append(vars, o)
				}
			}
		}
		for _, b := range f.Blocks {
			for _, in := range b.Instrs {
				switch x := in.(type) {
				case *ssa.DebugRef:
					o, ok := x.Object().(*types.Var)
					if !ok || o == nil || o.IsField() || isParam[o] || seen[o] || o.Name() == "_" {
						continue
					}
					// package-level variables are not locals
					if o.Parent() != nil && o.Pkg() != nil && o.Parent() == o.Pkg().Scope() {
						continue
					}
					seen[o] = true
					vars = append(vars, o)
				case ssa.CallInstruction:
					if c := x.Common().StaticCallee(); c != nil && c.Pkg != nil && IsRepoPath(c.Pkg.Pkg.Path()) && c.Parent() == nil {
						callees[FuncKey(c)] = true
					}
				}
			}
		}
		for _, a := range f.AnonFuncs {
			scan(a)
		}
	}
	scan(fn)
	sort.SliceStable(vars, func(i, j int) bool { return vars[i].Pos() < vars[j].Pos() })
	for _, v := range vars {
		n.Locals = append(n.Locals, [2]string{v.Name(), typeStr(v.Type())})
	}
	for k := range callees {
		n.Callees = append(n.Callees, k)
	}
	sort.Strings(n.Callees)
	return n
}

// LoadRecordedNames reads the names file written by `govc names`.
func (P *Program) LoadRecordedNames(path string) error {
	b, err := os.ReadFile(path)
	if err != nil {
		return err
	}
	m := map[string]*FuncNames{}
	if err := json.Unmarshal(b, &m); err != nil {
		return err
	}
	P.Recorded = m
	return nil
}

// aliasFor: recorded name -> current name, for the names of fn that the contract may
// use and that changed since the names were recorded.
func (P *Program) aliasFor(fn *ssa.Function) map[string][]string {
	if P.Recorded == nil || fn == nil {
		return nil
	}
	top := fn
	for top.Parent() != nil {
		top = top.Parent()
	}
	if P.aliases == nil {
		P.aliases = map[*ssa.Function]map[string][]string{}
	}
	if a, ok := P.aliases[top]; ok {
		return a
	}
	rec := P.Recorded[FuncKey(top)]
	if rec == nil {
		P.aliases[top] = nil
		return nil
	}
	cur := P.CurrentNames(top)
	curAll := map[string]bool{}
	for _, p := range cur.Params {
		curAll[p] = true
	}
	for _, p := range cur.Results {
		curAll[p] = true
	}
	for _, l := range cur.Locals {
		curAll[l[0]] = true
	}
	recAll := map[string]bool{}
	for _, p := range rec.Params {
		recAll[p] = true
	}
	for _, p := range rec.Results {
		recAll[p] = true
	}
	for _, l := range rec.Locals {
		recAll[l[0]] = true
	}
	// a recorded name maps to the current names of the declarations it named, in
	// declaration order (a name declared in several scopes may have been renamed
	// differently in each); a look-up tries them from the last to the first and takes
	// the first that is defined at the program point, as shadowing would
	alias := map[string][]string{}
	put := func(old, nw string) {
		if old == "" || nw == "" || old == "_" || nw == "_" {
			return
		}
		for _, x := range alias[old] {
			if x == nw {
				return
			}
		}
		alias[old] = append(alias[old], nw)
	}
	// a renamed parameter / named result keeps its position; as before the rename it
	// wins over a local declared under the same (recorded) name
	paramAlias := map[string]string{}
	if len(rec.Params) == len(cur.Params) {
		for i := range rec.Params {
			if rec.Params[i] != cur.Params[i] && !curAll[rec.Params[i]] && rec.Params[i] != "" && rec.Params[i] != "_" && cur.Params[i] != "" && cur.Params[i] != "_" {
				paramAlias[rec.Params[i]] = cur.Params[i]
			}
		}
	}
	if len(rec.Results) == len(cur.Results) {
		for i := range rec.Results {
			if rec.Results[i] != cur.Results[i] && !curAll[rec.Results[i]] && rec.Results[i] != "" && rec.Results[i] != "_" && cur.Results[i] != "" && cur.Results[i] != "_" {
				paramAlias[rec.Results[i]] = cur.Results[i]
			}
		}
	}
	// locals: a pure rename keeps number, order and types of the declarations
	pure := len(rec.Locals) == len(cur.Locals)
	if pure {
		for i := range rec.Locals {
			if rec.Locals[i][1] != cur.Locals[i][1] {
				pure = false
				break
			}
		}
	}
	if pure {
		changed := map[string]bool{}
		for i := range rec.Locals {
			// only names the function no longer has (a reordering of declarations keeps
			// every name and needs no mapping)
			if rec.Locals[i][0] != cur.Locals[i][0] && !curAll[rec.Locals[i][0]] {
				changed[rec.Locals[i][0]] = true
			}
		}
		for i := range rec.Locals {
			if changed[rec.Locals[i][0]] {
				put(rec.Locals[i][0], cur.Locals[i][0])
			}
		}
	} else {
		// otherwise: per type, the recorded names that disappeared against the new names
		// that appeared, in declaration order, when their numbers agree
		missing := map[string][]string{}
		appeared := map[string][]string{}
		var typesSeen []string
		seenM := map[string]bool{}
		for _, l := range rec.Locals {
			if !curAll[l[0]] && !seenM[l[0]] {
				seenM[l[0]] = true
				if len(missing[l[1]]) == 0 {
					typesSeen = append(typesSeen, l[1])
				}
				missing[l[1]] = append(missing[l[1]], l[0])
			}
		}
		seenA := map[string]bool{}
		for _, l := range cur.Locals {
			if !recAll[l[0]] && !seenA[l[0]] {
				seenA[l[0]] = true
				appeared[l[1]] = append(appeared[l[1]], l[0])
			}
		}
		for _, t := range typesSeen {
			if len(missing[t]) == len(appeared[t]) {
				for i := range missing[t] {
					put(missing[t][i], appeared[t][i])
				}
			}
		}
	}
	for k, v := range alias {
		if len(v) == 1 && v[0] == k {
			delete(alias, k)
		}
	}
	for k, v := range paramAlias {
		alias[k] = []string{v}
	}
	if len(alias) == 0 {
		alias = nil
	}
	P.aliases[top] = alias
	return alias
}
