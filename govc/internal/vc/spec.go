package vc

// Contract files: `//@` blocks in comment-only Go files behind the build tag
// (zz_contracts_verif.go next to the code in /repo) and plain-text .spec files
// for trusted external functions (/verif/contracts/trusted/*.spec).

import (
	"bufio"
	"go/types"
	"fmt"
	"os"
	"path/filepath"
	"regexp"
	"sort"
	"strconv"
	"strings"
)

type Clause struct {
	Label string
	Src   string
	E     Expr
	Prop  string // property id this clause reports to ("" = block default)
	Implicit bool
	Assumed  bool // used at call sites, not checked against the body (an explicit assumption, listed in the evidence)
	File  string
	Line  int
}

// AtClause is an assertion attached to call sites inside the function:
//   at <callee> assert label: expr      (every call whose callee name ends with <callee>)
// The expression sees the function's parameters, source-level locals visible at
// the call, and the call's arguments as $0, $1, ... (recv for the receiver).
type AtClause struct {
	Callee string
	C      Clause
}

type LetDef struct {
	Name string
	E    Expr
}

type FuncContract struct {
	Key      string // pkgpath.Func or pkgpath.Type.Method
	Props    []string
	Requires []Clause
	Ensures  []Clause
	Loops    map[int][]Clause
	Ats      []AtClause
	Deferred []AtClause // "deferred <callee> [Cnn] label": function literals handed to <callee> run later (see deferredClosures)
	NoCalls  []AtClause // "nocall <callee> [Cnn] label": the function itself never calls <callee> (a frame condition)
	Witness  []LetDef // named entry-state terms whose model values feed the counterexample replay
	Locals   []QVar   // declared source-level locals (name, type): enables rename-tolerant resolution
	Sets     []LetDef // ghost updates performed at function exit: sets g = expr
	Lets     []LetDef
	Trusted  bool // contract assumed, body not verified
	Pure     bool // results are uninterpreted functions of the argument values
	Inline   bool
	NoInline bool
	Safe     bool
	Uses     []string
	Reveals  []string
	AssumedClauses []string
	ModGhost []string // ghost variables the function may modify (trusted functions)
	ModArgs  []string // pointer parameters whose pointee may be arbitrarily modified (trusted externals)
	ModAll   bool     // trusted function may modify any modelled heap location
	NoEffects bool    // assumed to leave every modelled heap location unchanged (noverify functions; listed in the evidence)
	AssumeCalleeReq bool // callee preconditions at this function's call sites are assumed, not proved
	NoVerify bool     // contract used at call sites only (declared but body check skipped, counts as assumption)
	File     string
	Line     int
	IsIface  bool
}

type SpecFunc struct {
	Name    string
	Params  []QVar
	Ret     string
	Body    Expr // nil: uninterpreted
	BodySrc string
	Macro   bool
	Opaque  bool // definition visible only where revealed (`reveals name`)
	FootOnly bool // "~ expr": uninterpreted function of the parameters and of the heap maps expr reads
	File    string
}

type Axiom struct {
	Name string
	Src  string
	E    Expr
	File string
}

type Lemma struct {
	Reveals []string
	Name string
	Src  string
	E    Expr
	Prop string
	Uses []string
	File string
}

type GhostVar struct {
	Name    string
	Sort    string
	Default string // per-object ghost maps: value at freshly allocated references
}

type Specs struct {
	Funcs  map[string]*FuncContract
	Spec   map[string]*SpecFunc
	Axioms map[string]*Axiom
	Lemmas []*Lemma
	Ghost  map[string]*GhostVar
	Files  []string
	// EffectFree lists package path prefixes whose functions are assumed to have no effect on modelled state
	EffectFree []string
	// Writers lists external functions that write through their pointer arguments
	Consts map[string]string // named string constants usable in contracts
}

func NewSpecs() *Specs {
	return &Specs{Funcs: map[string]*FuncContract{}, Spec: map[string]*SpecFunc{}, Axioms: map[string]*Axiom{}, Ghost: map[string]*GhostVar{}, Consts: map[string]string{}}
}

var kwRe = regexp.MustCompile(`^(func|iface|spec|macro|axiom|lemma|ghost|effectfree|property|requires|ensures|loop|let|trusted|pure|inline|noinline|safe|uses|modifies|noverify|noeffects|at|sets|local|reveals|opaque|witness|assumes|nocall|trustcallees|deferred)\b`)

// LoadFile parses one contract file. pkgPath is the import path used for
// unqualified function names ("" for .spec files, which use full paths).
func (s *Specs) LoadFile(path, pkgPath string) error {
	f, err := os.Open(path)
	if err != nil {
		return err
	}
	defer f.Close()
	s.Files = append(s.Files, path)
	isGo := strings.HasSuffix(path, ".go")
	type rawLine struct {
		text string
		line int
	}
	var lines []rawLine
	sc := bufio.NewScanner(f)
	sc.Buffer(make([]byte, 1<<20), 1<<20)
	ln := 0
	for sc.Scan() {
		ln++
		t := sc.Text()
		if isGo {
			tt := strings.TrimSpace(t)
			if strings.HasPrefix(tt, "//@") {
				t = strings.TrimPrefix(tt, "//@")
			} else if strings.HasPrefix(tt, "// @") { // gofmt may rewrite //@ in doc comments
				t = strings.TrimPrefix(tt, "// @")
			} else {
				continue
			}
		}
		// strip trailing comments introduced by " -- "
		if i := strings.Index(t, " -- "); i >= 0 {
			t = t[:i]
		}
		tt := strings.TrimSpace(t)
		if tt == "" || strings.HasPrefix(tt, "#") || strings.HasPrefix(tt, "--") {
			continue
		}
		if kwRe.MatchString(tt) || len(lines) == 0 {
			lines = append(lines, rawLine{tt, ln})
		} else {
			lines[len(lines)-1].text += " " + tt
		}
	}
	if err := sc.Err(); err != nil {
		return err
	}
	var cur *FuncContract
	var curLemma *Lemma
	fail := func(l rawLine, msg string, a ...interface{}) error {
		return fmt.Errorf("%s:%d: %s", path, l.line, fmt.Sprintf(msg, a...))
	}
	parseClause := func(l rawLine, rest string) (Clause, error) {
		label := ""
		cprop := ""
		// optional "[Cnn]" prefix: this clause reports to that property instead of the block's
		if m := regexp.MustCompile(`^\[(C[0-9]+)\]\s*(.*)$`).FindStringSubmatch(rest); m != nil {
			cprop = m[1]
			rest = m[2]
		}
		// optional "label:" prefix (identifier followed by ':' but not '::')
		if m := regexp.MustCompile(`^([A-Za-z_][A-Za-z0-9_]*)\s*:([^:].*)$`).FindStringSubmatch(rest); m != nil {
			label = m[1]
			rest = strings.TrimSpace(m[2])
		}
		e, err := ParseExpr(rest)
		if err != nil {
			return Clause{}, fail(l, "%v", err)
		}
		return Clause{Label: label, Src: rest, E: e, File: path, Line: l.line, Prop: cprop}, nil
	}
	for _, l := range lines {
		kw := kwRe.FindString(l.text)
		rest := strings.TrimSpace(strings.TrimPrefix(l.text, kw))
		switch kw {
		case "func", "iface":
			name := strings.Fields(rest)[0]
			key := name
			if pkgPath != "" && !strings.Contains(name, "/") && !isStdQualified(name) {
				key = pkgPath + "." + name
			}
			cur = &FuncContract{Key: key, Loops: map[int][]Clause{}, File: path, Line: l.line, IsIface: kw == "iface"}
			curLemma = nil
			if _, dup := s.Funcs[key]; dup {
				return fail(l, "duplicate contract for %s", key)
			}
			s.Funcs[key] = cur
		case "property":
			if curLemma != nil {
				curLemma.Prop = strings.Fields(rest)[0]
			} else if cur != nil {
				cur.Props = append(cur.Props, strings.Fields(rest)...)
			}
		case "requires", "ensures", "assumes":
			if cur == nil {
				return fail(l, "%s outside func block", kw)
			}
			c, err := parseClause(l, rest)
			if err != nil {
				return err
			}
			if kw == "assumes" {
				c.Assumed = true
				c.Implicit = true // not checked against the body
				if c.Label == "" {
					c.Label = "assumed" + strconv.Itoa(len(cur.Ensures)+1)
				}
				cur.Ensures = append(cur.Ensures, c)
				cur.AssumedClauses = append(cur.AssumedClauses, c.Label+": "+c.Src)
				continue
			}
			if kw == "requires" {
				if c.Label == "" {
					c.Label = "r" + strconv.Itoa(len(cur.Requires)+1)
				}
				cur.Requires = append(cur.Requires, c)
			} else {
				if c.Label == "" {
					c.Label = "e" + strconv.Itoa(len(cur.Ensures)+1)
				}
				cur.Ensures = append(cur.Ensures, c)
			}
		case "loop":
			if cur == nil {
				return fail(l, "loop outside func block")
			}
			fs := strings.Fields(rest)
			if len(fs) < 3 || fs[1] != "invariant" {
				return fail(l, "expected: loop <n> invariant <expr>")
			}
			n, err := strconv.Atoi(fs[0])
			if err != nil {
				return fail(l, "bad loop ordinal")
			}
			r := strings.TrimSpace(rest[strings.Index(rest, "invariant")+len("invariant"):])
			c, err := parseClause(l, r)
			if err != nil {
				return err
			}
			if c.Label == "" {
				c.Label = "i" + strconv.Itoa(len(cur.Loops[n])+1)
			}
			cur.Loops[n] = append(cur.Loops[n], c)
		case "at":
			if cur == nil {
				return fail(l, "at outside func block")
			}
			fs := strings.Fields(rest)
			if len(fs) < 3 || fs[1] != "assert" {
				return fail(l, "expected: at <callee> assert [label:] <expr>")
			}
			r := strings.TrimSpace(rest[strings.Index(rest, "assert")+len("assert"):])
			c, err := parseClause(l, r)
			if err != nil {
				return err
			}
			if c.Label == "" {
				c.Label = "a" + strconv.Itoa(len(cur.Ats)+1)
			}
			cur.Ats = append(cur.Ats, AtClause{Callee: fs[0], C: c})
		case "witness":
			if cur == nil {
				return fail(l, "witness outside func block")
			}
			i := strings.Index(rest, ":")
			if i < 0 {
				return fail(l, "witness needs 'name: expr'")
			}
			e, err := ParseExpr(strings.TrimSpace(rest[i+1:]))
			if err != nil {
				return fail(l, "%v", err)
			}
			cur.Witness = append(cur.Witness, LetDef{strings.TrimSpace(rest[:i]), e})
		case "local":
			if cur == nil {
				return fail(l, "local outside func block")
			}
			fs := strings.Fields(rest)
			if len(fs) != 2 {
				return fail(l, "expected: local <name> <type>")
			}
			cur.Locals = append(cur.Locals, QVar{fs[0], fs[1]})
		case "sets":
			if cur == nil {
				return fail(l, "sets outside func block")
			}
			i := strings.Index(rest, "=")
			if i < 0 {
				return fail(l, "sets needs '='")
			}
			src := strings.TrimSpace(rest[i+1:])
			e, err := ParseExpr(src)
			if err != nil {
				return fail(l, "%v", err)
			}
			g := strings.TrimSpace(rest[:i])
			cur.Sets = append(cur.Sets, LetDef{g, e})
			// callers learn the new value through an implicit postcondition, unless the
			// update is relative to the value at exit (mentions the ghost outside old()):
			// then the contract must state what callers may rely on
			stripped := strings.ReplaceAll(src, "old("+g+")", "")
			if !regexp.MustCompile(`\b` + regexp.QuoteMeta(g) + `\b`).MatchString(stripped) {
				ie, _ := ParseExpr(g + " == (" + src + ")")
				cur.Ensures = append(cur.Ensures, Clause{Label: "sets_" + g, Src: g + " == (" + src + ")", E: ie, File: path, Line: l.line, Implicit: true})
			}
		case "let":
			if cur == nil {
				return fail(l, "let outside func block")
			}
			i := strings.Index(rest, "=")
			if i < 0 {
				return fail(l, "let needs '='")
			}
			e, err := ParseExpr(strings.TrimSpace(rest[i+1:]))
			if err != nil {
				return fail(l, "%v", err)
			}
			cur.Lets = append(cur.Lets, LetDef{strings.TrimSpace(rest[:i]), e})
		case "trusted":
			cur.Trusted = true
		case "noverify":
			cur.NoVerify = true
		case "nocall":
			if cur == nil {
				return fail(l, "nocall outside func block")
			}
			fs := strings.Fields(rest)
			if len(fs) < 1 {
				return fail(l, "expected: nocall <callee> [[Cnn]] [label]")
			}
			c := Clause{File: path, Line: l.line, Src: "the function does not call " + fs[0]}
			for _, f := range fs[1:] {
				if m := regexp.MustCompile(`^\[(C[0-9]+)\]$`).FindStringSubmatch(f); m != nil {
					c.Prop = m[1]
				} else {
					c.Label = strings.TrimSuffix(f, ":")
				}
			}
			if c.Label == "" {
				c.Label = "nocall" + strconv.Itoa(len(cur.NoCalls)+1)
			}
			cur.NoCalls = append(cur.NoCalls, AtClause{Callee: fs[0], C: c})
		case "deferred":
			if cur == nil {
				return fail(l, "deferred outside func block")
			}
			fs := strings.Fields(rest)
			if len(fs) < 1 {
				return fail(l, "expected: deferred <callee> [[Cnn]] [label]")
			}
			c := Clause{File: path, Line: l.line, Src: "a function literal handed to " + fs[0] + " runs later: what it captured by reference keeps its value"}
			for _, f := range fs[1:] {
				if m := regexp.MustCompile(`^\[(C[0-9]+)\]$`).FindStringSubmatch(f); m != nil {
					c.Prop = m[1]
				} else {
					c.Label = strings.TrimSuffix(f, ":")
				}
			}
			if c.Label == "" {
				c.Label = "deferred" + strconv.Itoa(len(cur.Deferred)+1)
			}
			cur.Deferred = append(cur.Deferred, AtClause{Callee: fs[0], C: c})
		case "noeffects":
			cur.NoEffects = true
		case "trustcallees":
			// the preconditions of the callees of THIS function are assumed at its call sites
			// instead of proved (listed as an assumption): for functions whose contract is
			// only about their own call-site assertions
			cur.AssumeCalleeReq = true
		case "pure":
			cur.Pure = true
		case "inline":
			cur.Inline = true
		case "noinline":
			cur.NoInline = true
		case "safe":
			cur.Safe = true
		case "uses":
			if curLemma != nil {
				curLemma.Uses = append(curLemma.Uses, strings.Fields(rest)...)
			} else if cur != nil {
				cur.Uses = append(cur.Uses, strings.Fields(rest)...)
			}
		case "modifies":
			if cur == nil {
				return fail(l, "modifies outside func block")
			}
			fs := strings.Fields(rest)
			if len(fs) == 0 {
				return fail(l, "modifies what?")
			}
			switch fs[0] {
			case "ghost":
				cur.ModGhost = append(cur.ModGhost, fs[1:]...)
			case "arg":
				cur.ModArgs = append(cur.ModArgs, fs[1:]...)
			case "all":
				cur.ModAll = true
			default:
				return fail(l, "modifies ghost|arg|all")
			}
		case "effectfree":
			s.EffectFree = append(s.EffectFree, strings.Fields(rest)...)
		case "ghost":
			fs := strings.Fields(rest)
			if len(fs) < 3 || fs[0] != "var" {
				return fail(l, "expected: ghost var <name> <sort>")
			}
			gv := &GhostVar{Name: fs[1]}
			rest2 := fs[2:]
			for i, f := range rest2 {
				if f == "default" && i+1 < len(rest2) {
					gv.Default = strings.Join(rest2[i+1:], " ")
					rest2 = rest2[:i]
					break
				}
			}
			gv.Sort = strings.Join(rest2, " ")
			s.Ghost[fs[1]] = gv
		case "reveals":
			if curLemma != nil {
				curLemma.Reveals = append(curLemma.Reveals, strings.Fields(rest)...)
			} else if cur != nil {
				cur.Reveals = append(cur.Reveals, strings.Fields(rest)...)
			}
		case "opaque":
			cur, curLemma = nil, nil
			r := strings.TrimSpace(rest)
			if !strings.HasPrefix(r, "spec func") {
				return fail(l, "expected 'opaque spec func'")
			}
			r = strings.TrimSpace(strings.TrimPrefix(r, "spec func"))
			sf, err := parseSpecFunc(r, false)
			if err != nil {
				return fail(l, "%v", err)
			}
			sf.File = path
			sf.Opaque = true
			if _, dup := s.Spec[sf.Name]; dup {
				return fail(l, "duplicate spec function %s", sf.Name)
			}
			s.Spec[sf.Name] = sf
		case "spec", "macro":
			cur, curLemma = nil, nil
			r := rest
			if kw == "spec" {
				if !strings.HasPrefix(r, "func") {
					return fail(l, "expected 'spec func'")
				}
				r = strings.TrimSpace(strings.TrimPrefix(r, "func"))
			}
			sf, err := parseSpecFunc(r, kw == "macro")
			if err != nil {
				return fail(l, "%v", err)
			}
			sf.File = path
			if _, dup := s.Spec[sf.Name]; dup {
				return fail(l, "duplicate spec function %s", sf.Name)
			}
			s.Spec[sf.Name] = sf
		case "axiom", "lemma":
			cur = nil
			i := strings.Index(rest, ":")
			if i < 0 {
				return fail(l, "%s needs 'name: expr'", kw)
			}
			name := strings.TrimSpace(rest[:i])
			src := strings.TrimSpace(rest[i+1:])
			e, err := ParseExpr(src)
			if err != nil {
				return fail(l, "%v", err)
			}
			if kw == "axiom" {
				s.Axioms[name] = &Axiom{Name: name, Src: src, E: e, File: path}
				curLemma = nil
			} else {
				curLemma = &Lemma{Name: name, Src: src, E: e, File: path}
				s.Lemmas = append(s.Lemmas, curLemma)
			}
		default:
			return fail(l, "cannot parse %q", l.text)
		}
	}
	return nil
}

func isStdQualified(name string) bool {
	// "math/big.Int.Add" contains '/', handled elsewhere; "bytes.Equal" style names
	// are recognised by a leading lower-case package segment followed by an upper-case name
	// only in .spec files (pkgPath == ""), so nothing to do here.
	return false
}

var specFuncRe = regexp.MustCompile(`^([A-Za-z_][A-Za-z0-9_#]*)\s*\(([^)]*)\)\s*([A-Za-z0-9_\[\]\*\./]*)\s*([=~]\s*(.*))?$`)

func parseSpecFunc(r string, macro bool) (*SpecFunc, error) {
	m := specFuncRe.FindStringSubmatch(r)
	if m == nil {
		return nil, fmt.Errorf("cannot parse spec function header %q", r)
	}
	sf := &SpecFunc{Name: m[1], Ret: m[3], Macro: macro}
	for _, p := range strings.Split(m[2], ",") {
		p = strings.TrimSpace(p)
		if p == "" {
			continue
		}
		fs := strings.Fields(p)
		if len(fs) == 1 {
			sf.Params = append(sf.Params, QVar{fs[0], ""})
		} else {
			sf.Params = append(sf.Params, QVar{fs[0], fs[1]})
		}
	}
	// "a, b int" style: propagate types backwards
	for i := len(sf.Params) - 2; i >= 0; i-- {
		if sf.Params[i].Type == "" {
			sf.Params[i].Type = sf.Params[i+1].Type
		}
	}
	if m[5] != "" {
		e, err := ParseExpr(m[5])
		if err != nil {
			return nil, err
		}
		sf.Body = e
		sf.BodySrc = m[5]
		if strings.HasPrefix(m[4], "~") {
			sf.FootOnly = true
			sf.Opaque = true
		}
	}
	if macro && sf.Body == nil {
		return nil, fmt.Errorf("macro %s needs a body", sf.Name)
	}
	return sf, nil
}

// LoadDir loads every *.spec file of a directory (sorted).
func (s *Specs) LoadDir(dir string) error {
	ms, _ := filepath.Glob(filepath.Join(dir, "*.spec"))
	sort.Strings(ms)
	for _, m := range ms {
		if err := s.LoadFile(m, ""); err != nil {
			return err
		}
	}
	return nil
}

// SpecGoType gives spec-level slice sorts a Go type so that indexing knows the element sort.
func SpecGoType(t string) types.Type {
	if !strings.HasPrefix(t, "[]") || t == "[]byte" {
		return nil
	}
	switch t[2:] {
	case "string":
		return types.NewSlice(types.Typ[types.String])
	case "int", "int64":
		return types.NewSlice(types.Typ[types.Int64])
	case "bool":
		return types.NewSlice(types.Typ[types.Bool])
	case "bytes":
		return types.NewSlice(types.NewSlice(types.Typ[types.Byte]))
	case "ref":
		return types.NewSlice(types.Typ[types.UnsafePointer])
	}
	return nil
}

// SpecSort maps a sort name of the contract language to an SMT sort.
func SpecSort(t string) string {
	if strings.HasPrefix(t, "[]") {
		if t == "[]byte" {
			return "Bytes"
		}
		return "Slice"
	}
	switch t {
	case "int", "ref", "int64", "uint64", "int32", "uint32", "map", "ptr":
		return "Int"
	case "bool":
		return "Bool"
	case "string":
		return "Str"
	case "bytes":
		return "Bytes"
	case "real", "float64":
		return "Real"
	case "iface", "error":
		return "Iface"
	case "slice":
		return "Slice"
	case "strset":
		return "(Array Str Bool)"
	case "intset":
		return "(Array Int Bool)"
	case "intarr":
		return "(Array Int Int)"
	case "strarr":
		return "(Array Int Str)"
	case "trace":
		return "Trace"
	}
	return t
}
