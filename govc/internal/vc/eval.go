package vc

// Evaluation of contract expressions to SMT terms.

import (
	"fmt"
	"go/constant"
	"go/types"
	"strconv"
	"strings"

	"golang.org/x/tools/go/ssa"
)

type Env struct {
	s      *Sym
	vars   map[string]TV
	parent *Env
	local  func(string) (TV, bool)
	mut    map[string]bool // parameters the body assigns (loop-carried): inside the body their current value wins
	st     *State
	old    *State
	pkg    *types.Package
	// isParamScope marks the environment that binds the function's parameters
	isParamScope bool
	// alias: recorded (contract) name -> current source name of a renamed parameter / local
	alias map[string][]string
	// localFirst: source names of the current frame shadow the parameter bindings
	// (frames of helpers extracted from the function under contract)
	localFirst bool
}

func (s *Sym) newEnv(pkg *types.Package) *Env {
	return &Env{s: s, vars: map[string]TV{}, pkg: pkg}
}

func (e *Env) child() *Env {
	return &Env{s: e.s, vars: map[string]TV{}, parent: e, local: e.local, mut: e.mut, st: e.st, old: e.old, pkg: e.pkg, alias: e.alias, localFirst: e.localFirst}
}

func (e *Env) lookup(name string) (TV, bool) {
	if as, ok := e.alias[name]; ok {
		// not when a quantifier / let of the contract binds the name
		bound := false
		for x := e; x != nil && x.parent != nil; x = x.parent {
			if _, ok := x.vars[name]; ok {
				bound = true
			}
		}
		if !bound {
			for i := len(as) - 1; i >= 0; i-- {
				if v, ok := e.lookup1(as[i]); ok {
					return v, true
				}
			}
			return TV{}, false
		}
	}
	return e.lookup1(name)
}

func (e *Env) lookup1(name string) (TV, bool) {
	if e.local != nil && (e.mut[name] || e.localFirst) {
		shadowed := false
		for x := e; x != nil; x = x.parent {
			if _, ok := x.vars[name]; ok && x.parent != nil && !x.isParamScope {
				shadowed = true // a quantifier / let binding of the same name
			}
		}
		if !shadowed {
			if v, ok := e.local(name); ok {
				return v, true
			}
		}
	}
	for x := e; x != nil; x = x.parent {
		if v, ok := x.vars[name]; ok {
			return v, true
		}
	}
	if e.local != nil {
		if v, ok := e.local(name); ok {
			return v, true
		}
	}
	return TV{}, false
}

type evalError struct{ msg string }

func (s *Sym) evalBool(env *Env, e Expr) string {
	v := s.eval(env, e)
	if v.S != "Bool" && s.Err == nil {
		s.fail("contract expression %s is not boolean (sort %s)", e.String(), v.S)
		return "true"
	}
	if v.T == "" {
		return "true"
	}
	return v.T
}

func (s *Sym) eval(env *Env, e Expr) (res TV) {
	defer func() {
		if r := recover(); r != nil {
			if ee, ok := r.(evalError); ok {
				s.fail("%s (in %s)", ee.msg, e.String())
				res = TV{T: "true", S: "Bool"}
				return
			}
			panic(r)
		}
	}()
	return s.ev(env, e)
}

func bad(format string, a ...interface{}) { panic(evalError{fmt.Sprintf(format, a...)}) }

func (s *Sym) ev(env *Env, e Expr) TV {
	switch x := e.(type) {
	case EInt:
		v := x.V
		if strings.Contains(v, ".") {
			return TV{T: v, S: "Real"}
		}
		if strings.HasPrefix(v, "0x") {
			n, err := strconv.ParseUint(v[2:], 16, 64)
			if err != nil {
				bad("bad hex literal %s", v)
			}
			v = strconv.FormatUint(n, 10)
		}
		return TV{T: v, S: "Int"}
	case EStr:
		v := x.V
		return TV{T: s.strConst(v), S: "Str", Lit: &v}
	case EBool:
		return TV{T: strconv.FormatBool(x.V), S: "Bool"}
	case ENil:
		return TV{T: "nil", S: "Nil"}
	case EIdent:
		return s.evIdent(env, x.Name)
	case EOld:
		if env.old == nil {
			bad("old() not available here")
		}
		c := env.child()
		c.st = env.old
		return s.ev(c, x.X)
	case EUn:
		v := s.ev(env, x.X)
		switch x.Op {
		case "!":
			return TV{T: mkNot(v.T), S: "Bool"}
		case "-":
			return TV{T: "(- " + v.T + ")", S: v.S}
		case "*":
			return s.evDeref(env, v)
		}
	case EBin:
		return s.evBin(env, x)
	case ECond:
		c := s.ev(env, x.C)
		a := s.ev(env, x.A)
		b := s.ev(env, x.B)
		a, b = unify(a, b)
		return TV{T: fmt.Sprintf("(ite %s %s %s)", c.T, a.T, b.T), S: a.S, GT: a.GT}
	case EField:
		return s.evField(env, x)
	case EIndex:
		b := s.ev(env, x.X)
		i := s.ev(env, x.I)
		return s.evIndex(env, b, i)
	case ESlice:
		b := s.ev(env, x.X)
		if b.S == "Slice" && x.Lo == nil && x.Hi != nil {
			h := s.ev(env, x.Hi)
			return TV{T: fmt.Sprintf("(mk-slice (sl-arr %s) %s)", b.T, h.T), S: "Slice", GT: b.GT}
		}
		bad("unsupported slice expression")
	case ECall:
		return s.evCall(env, x)
	case EAssert:
		v := s.ev(env, x.X)
		if v.S != "Iface" {
			bad("type assertion on non-interface")
		}
		t := s.P.namedType(x.T)
		if t == nil {
			bad("unknown type %s", x.T)
		}
		return TV{T: "(ival " + v.T + ")", S: "Int", GT: types.NewPointer(t)}
	case EQuant:
		c := env.child()
		var decl []string
		for _, v := range x.Vars {
			so, gt := s.P.specType(v.Type)
			n := q("qv:" + v.Name)
			if s.qvSort == nil {
				s.qvSort = map[string]string{}
			}
			s.qvSort[n] = so
			c.vars[v.Name] = TV{T: n, S: so, GT: gt}
			decl = append(decl, fmt.Sprintf("(%s %s)", n, so))
		}
		body := s.ev(c, x.Body)
		kw := "exists"
		if x.Forall {
			kw = "forall"
		}
		return TV{T: fmt.Sprintf("(%s (%s) %s)", kw, strings.Join(decl, " "), body.T), S: "Bool"}
	}
	bad("cannot evaluate %T", e)
	return TV{}
}

func unify(a, b TV) (TV, TV) {
	if a.S == "Nil" && b.S != "Nil" {
		a = TV{T: nilOf(b), S: b.S, GT: b.GT}
	}
	if b.S == "Nil" && a.S != "Nil" {
		b = TV{T: nilOf(a), S: a.S, GT: a.GT}
	}
	if a.S == "Int" && b.S == "Real" {
		a = TV{T: "(to_real " + a.T + ")", S: "Real"}
	}
	if b.S == "Int" && a.S == "Real" {
		b = TV{T: "(to_real " + b.T + ")", S: "Real"}
	}
	return a, b
}

func nilOf(v TV) string { return zeroOf(v.S) }

func (s *Sym) evIdent(env *Env, name string) TV {
	if v, ok := env.lookup(name); ok {
		return v
	}
	if g, ok := s.P.Specs.Ghost[name]; ok {
		so, gt := s.P.specType(g.Sort)
		return TV{T: s.getMap(env.st, "H:"+name, so), S: so, GT: gt}
	}
	if sf, ok := s.P.Specs.Spec[name]; ok && len(sf.Params) == 0 {
		return s.applySpec(env, sf, nil)
	}
	// package-level variable or constant
	if env.pkg != nil {
		if tv, ok := s.pkgMember(env, env.pkg, name); ok {
			return tv
		}
	}
	bad("unknown identifier %s", name)
	return TV{}
}

func (s *Sym) pkgMember(env *Env, pkg *types.Package, name string) (TV, bool) {
	obj := pkg.Scope().Lookup(name)
	if obj == nil {
		return TV{}, false
	}
	switch o := obj.(type) {
	case *types.Const:
		so := SortOf(o.Type())
		switch so {
		case "Int":
			if o.Val().Kind() == constant.Int {
				return TV{T: intLit(o.Val().ExactString()), S: "Int", GT: o.Type()}, true
			}
		case "Str":
			v := constant.StringVal(o.Val())
			return TV{T: s.strConst(v), S: "Str", GT: o.Type(), Lit: &v}, true
		case "Bool":
			return TV{T: strconv.FormatBool(constant.BoolVal(o.Val())), S: "Bool"}, true
		}
	case *types.Var:
		sp := s.P.Prog.Package(pkg)
		if sp == nil {
			return TV{}, false
		}
		g, ok := sp.Members[name].(*ssa.Global)
		if !ok {
			return TV{}, false
		}
		fr := s.newFrame(s.Top, 0)
		l := fr.globalLoc(g)
		return fr.load(env.st, l), true
	}
	return TV{}, false
}

func (s *Sym) evDeref(env *Env, v TV) TV {
	if v.GT == nil {
		bad("deref of untyped value")
	}
	pt, ok := v.GT.Underlying().(*types.Pointer)
	if !ok {
		bad("deref of non-pointer")
	}
	et := pt.Elem()
	if _, isStruct := et.Underlying().(*types.Struct); isStruct {
		return TV{T: v.T, S: "Int", GT: et}
	}
	so := SortOf(et)
	m := s.getMap(env.st, CellMapName(et), mapSortOfElem(so))
	return TV{T: fmt.Sprintf("(select %s %s)", m, v.T), S: so, GT: et}
}

func structOf(t types.Type) (*types.Struct, types.Type) {
	if t == nil {
		return nil, nil
	}
	if p, ok := t.Underlying().(*types.Pointer); ok {
		t = p.Elem()
	}
	st, _ := t.Underlying().(*types.Struct)
	return st, t
}

func (s *Sym) evField(env *Env, x EField) TV {
	// pkgalias.Name ?
	if id, ok := x.X.(EIdent); ok {
		if _, isVar := env.lookup(id.Name); !isVar && env.pkg != nil {
			if _, isGhost := s.P.Specs.Ghost[id.Name]; !isGhost {
				for _, imp := range env.pkg.Imports() {
					if imp.Name() == id.Name || lastSeg(imp.Path()) == id.Name {
						if tv, ok := s.pkgMember(env, imp, x.Name); ok {
							return tv
						}
					}
				}
				if p := s.P.pkgByName(id.Name); p != nil {
					if tv, ok := s.pkgMember(env, p, x.Name); ok {
						return tv
					}
				}
			}
		}
	}
	b := s.ev(env, x.X)
	return s.fieldOf(env, b, x.Name)
}

func (s *Sym) fieldOf(env *Env, b TV, name string) TV {
	st, owner := structOf(b.GT)
	if st == nil {
		bad("field %s of non-struct value (sort %s, type %v)", name, b.S, b.GT)
	}
	for i := 0; i < st.NumFields(); i++ {
		f := st.Field(i)
		if f.Name() != name {
			continue
		}
		mn, ft := FieldMapName(owner, i)
		if _, nested := ft.Underlying().(*types.Struct); nested {
			return TV{T: s.subRef(mn, b.T), S: "Int", GT: ft}
		}
		so := SortOf(ft)
		m := s.getMap(env.st, mn, mapSortOfElem(so))
		r := TV{T: fmt.Sprintf("(select %s %s)", m, b.T), S: so, GT: ft}
		s.heapWellFormed(env, r)
		return r
	}
	// promoted field through an embedded struct
	for i := 0; i < st.NumFields(); i++ {
		f := st.Field(i)
		if !f.Embedded() {
			continue
		}
		if est, _ := structOf(f.Type()); est != nil {
			for j := 0; j < est.NumFields(); j++ {
				if est.Field(j).Name() == name {
					inner := s.fieldOf(env, b, f.Name())
					return s.fieldOf(env, inner, name)
				}
			}
		}
	}
	bad("no field %s in %v", name, owner)
	return TV{}
}

// heapWellFormed: references read from the heap are allocated (below the watermark
// of the state they are read in). Emitted as a ground fact for closed terms.
func (s *Sym) heapWellFormed(env *Env, v TV) {
	if strings.Contains(v.T, "|sp:") || strings.Contains(v.T, "|hp:") {
		return
	}
	if _, rec := recState[env.st]; rec {
		return
	}
	if strings.Contains(v.T, "|qv:") {
		s.quantifiedWellFormed(env, v)
		return
	}
	var t string
	switch {
	case v.S == "Bytes" || v.S == "Str":
		// representation invariants of string-like values stored in the heap
		key := "wfs:" + v.T
		if !s.declared[key] {
			s.declared[key] = true
			c := v.T
			if v.S == "Bytes" {
				c = "(cont " + v.T + ")"
				s.emit(fmt.Sprintf("(assert (=> (bnil %s) (= %s str_empty)))", v.T, c))
			}
			s.emit(fmt.Sprintf("(assert (and (>= (slen %s) 0) (=> (= (slen %s) 0) (= %s str_empty))))", c, c, c))
		}
		return
	case v.S == "Int" && isRefLike(v.GT):
		t = v.T
	case v.S == "Int" && v.GT != nil && isStructPtrOrStruct(v.GT):
		t = v.T
	case v.S == "Slice":
		t = "(sl-arr " + v.T + ")"
	case v.S == "Iface":
		t = "(ival " + v.T + ")"
	default:
		return
	}
	key := "wf:" + t + "@" + s.top(env.st)
	if s.declared[key] {
		return
	}
	s.declared[key] = true
	s.emit(fmt.Sprintf("(assert (and (>= %s 0) (<= %s %s)))", t, t, s.top(env.st)))
}

// quantifiedWellFormed: allocation fact for a heap read whose address mentions bound
// variables. Every reference stored anywhere in the heap of a state is at most that
// state's allocation watermark, whatever the index, so the fact is asserted
// universally over the bound variables occurring in the term.
func (s *Sym) quantifiedWellFormed(env *Env, v TV) {
	var t string
	switch {
	case v.S == "Int" && (isRefLike(v.GT) || (v.GT != nil && isStructPtrOrStruct(v.GT))):
		t = v.T
	case v.S == "Slice":
		t = "(sl-arr " + v.T + ")"
	default:
		return
	}
	if !strings.HasPrefix(v.T, "(select ") {
		return
	}
	key := "wfq:" + t + "@" + s.top(env.st)
	if s.declared[key] {
		return
	}
	// a read from a derived (define-fun) map: the fact follows from the one about the
	// map it derives from, and the macro could not stand in a pattern anyway
	derived := false
	for _, tok := range strings.FieldsFunc(v.T, func(r rune) bool { return r == ' ' || r == '(' || r == ')' }) {
		if s.definedNames[tok] {
			derived = true // a macro cannot stand in a pattern: the solver picks its own
		}
	}
	var decl []string
	seen := map[string]bool{}
	rest := v.T
	for {
		i := strings.Index(rest, "|qv:")
		if i < 0 {
			break
		}
		j := strings.Index(rest[i+1:], "|")
		if j < 0 {
			return
		}
		name := rest[i : i+j+2]
		rest = rest[i+j+2:]
		if seen[name] {
			continue
		}
		seen[name] = true
		so, ok := s.qvSort[name]
		if !ok {
			return
		}
		decl = append(decl, fmt.Sprintf("(%s %s)", name, so))
	}
	if len(decl) == 0 {
		return
	}
	s.declared[key] = true
	extra := ""
	if v.S == "Slice" {
		extra = fmt.Sprintf(" (>= (sl-len %s) 0) (=> (= (sl-arr %s) 0) (= (sl-len %s) 0))", v.T, v.T, v.T)
	}
	if derived && v.S != "Slice" {
		return // references read from a derived map: the fact follows from the base map's
	}
	if derived {
		s.emit(fmt.Sprintf("(assert (forall (%s) (and (>= %s 0) (<= %s %s)%s)))", strings.Join(decl, " "), t, t, s.top(env.st), extra))
		return
	}
	s.emit(fmt.Sprintf("(assert (forall (%s) (! (and (>= %s 0) (<= %s %s)%s) :pattern (%s))))", strings.Join(decl, " "), t, t, s.top(env.st), extra, v.T))
}

func isStructPtrOrStruct(t types.Type) bool {
	if p, ok := t.Underlying().(*types.Pointer); ok {
		_, ok2 := p.Elem().Underlying().(*types.Struct)
		return ok2
	}
	return false
}

func (s *Sym) evIndex(env *Env, b, i TV) TV {
	switch b.S {
	case "Slice":
		var et types.Type
		es := "Int"
		if b.GT != nil {
			if st, ok := b.GT.Underlying().(*types.Slice); ok {
				et = st.Elem()
				es = SortOf(et)
			}
		}
		name := "E:" + sortTag(es)
		m := s.getMap(env.st, name, "(Array Int "+mapSortOfElem(es)+")")
		r := TV{T: fmt.Sprintf("(select (select %s (sl-arr %s)) %s)", m, b.T, i.T), S: es, GT: et}
		s.heapWellFormed(env, r)
		return r
	case "Str":
		return TV{T: fmt.Sprintf("(sat %s %s)", b.T, i.T), S: "Int"}
	case "Bytes":
		return TV{T: fmt.Sprintf("(sat (cont %s) %s)", b.T, i.T), S: "Int"}
	}
	if strings.HasPrefix(b.S, "(Array ") {
		return TV{T: fmt.Sprintf("(select %s %s)", b.T, i.T), S: arrayElemSort(b.S)}
	}
	if b.GT != nil {
		if mt, ok := b.GT.Underlying().(*types.Map); ok {
			_, vn := MapMapNames(mt)
			ks, vs := SortOf(mt.Key()), SortOf(mt.Elem())
			vv := s.getMap(env.st, vn, "(Array Int (Array "+ks+" "+vs+"))")
			raw := TV{T: fmt.Sprintf("(select (select %s %s) %s)", vv, b.T, i.T), S: vs, GT: mt.Elem()}
			s.heapWellFormed(env, raw)
			// Go semantics: an absent key (or the nil map) reads as the zero value
			if z := zeroOf(vs); z != "" && !strings.HasPrefix(vs, "(") {
				dn, _ := MapMapNames(mt)
				dd := s.getMap(env.st, dn, "(Array Int (Array "+ks+" Bool))")
				return TV{T: fmt.Sprintf("(ite (and (not (= %s 0)) (select (select %s %s) %s)) %s %s)", b.T, dd, b.T, i.T, raw.T, z), S: vs, GT: mt.Elem()}
			}
			return raw
		}
	}
	bad("cannot index value of sort %s", b.S)
	return TV{}
}

func arrayElemSort(so string) string {
	// "(Array K V)" -> V, assuming K has no spaces or is parenthesised
	inner := strings.TrimSuffix(strings.TrimPrefix(so, "(Array "), ")")
	d := 0
	for i := 0; i < len(inner); i++ {
		switch inner[i] {
		case '(':
			d++
		case ')':
			d--
		case ' ':
			if d == 0 {
				return inner[i+1:]
			}
		}
	}
	return "Int"
}

func (s *Sym) evBin(env *Env, x EBin) TV {
	switch x.Op {
	case "&&", "||", "==>", "<==>":
		a := s.ev(env, x.X)
		// short circuit: lets contracts guard type-specific clauses with typeis()
		if a.T == "false" && x.Op == "==>" {
			return TV{T: "true", S: "Bool"}
		}
		if a.T == "false" && x.Op == "&&" {
			return TV{T: "false", S: "Bool"}
		}
		b := s.ev(env, x.Y)
		if a.S != "Bool" || b.S != "Bool" {
			bad("operands of %s must be boolean", x.Op)
		}
		switch x.Op {
		case "&&":
			return TV{T: mkAnd([]string{a.T, b.T}), S: "Bool"}
		case "||":
			return TV{T: mkOr([]string{a.T, b.T}), S: "Bool"}
		case "==>":
			return TV{T: fmt.Sprintf("(=> %s %s)", a.T, b.T), S: "Bool"}
		default:
			return TV{T: fmt.Sprintf("(= %s %s)", a.T, b.T), S: "Bool"}
		}
	}
	a := s.ev(env, x.X)
	b := s.ev(env, x.Y)
	a, b = unify(a, b)
	switch x.Op {
	case "==", "!=":
		var t string
		if a.S == "Nil" && b.S == "Nil" {
			t = "true"
		} else if b.T == zeroOf(b.S) && (b.S == "Slice" || b.S == "Bytes") && isNilExpr(x.Y) {
			t = s.isNilTerm(a)
		} else if isNilExpr(x.X) && (a.S == "Slice" || a.S == "Bytes") {
			t = s.isNilTerm(b)
		} else {
			if a.S != b.S {
				bad("comparison of different sorts %s and %s", a.S, b.S)
			}
			t = fmt.Sprintf("(= %s %s)", a.T, b.T)
		}
		if x.Op == "!=" {
			t = mkNot(t)
		}
		return TV{T: t, S: "Bool"}
	case "<", "<=", ">", ">=":
		if a.S == "Str" {
			switch x.Op {
			case "<":
				return TV{T: fmt.Sprintf("(slt %s %s)", a.T, b.T), S: "Bool"}
			case ">":
				return TV{T: fmt.Sprintf("(slt %s %s)", b.T, a.T), S: "Bool"}
			case "<=":
				return TV{T: fmt.Sprintf("(not (slt %s %s))", b.T, a.T), S: "Bool"}
			default:
				return TV{T: fmt.Sprintf("(not (slt %s %s))", a.T, b.T), S: "Bool"}
			}
		}
		return TV{T: fmt.Sprintf("(%s %s %s)", x.Op, a.T, b.T), S: "Bool"}
	case "+", "-", "*":
		if a.S == "Str" && x.Op == "+" {
			if a.Lit != nil && b.Lit != nil {
				v := *a.Lit + *b.Lit
				return TV{T: s.strConst(v), S: "Str", Lit: &v}
			}
			return TV{T: fmt.Sprintf("(sconcat %s %s)", a.T, b.T), S: "Str"}
		}
		return TV{T: fmt.Sprintf("(%s %s %s)", x.Op, a.T, b.T), S: a.S}
	case "/":
		if a.S == "Real" {
			return TV{T: fmt.Sprintf("(/ %s %s)", a.T, b.T), S: "Real"}
		}
		return TV{T: fmt.Sprintf("(godiv %s %s)", a.T, b.T), S: "Int"}
	case "%":
		return TV{T: fmt.Sprintf("(gomod %s %s)", a.T, b.T), S: "Int"}
	}
	bad("unknown operator %s", x.Op)
	return TV{}
}

func isNilExpr(e Expr) bool { _, ok := e.(ENil); return ok }

func (s *Sym) isNilTerm(v TV) string {
	switch v.S {
	case "Slice":
		return fmt.Sprintf("(= (sl-arr %s) 0)", v.T)
	case "Bytes":
		return fmt.Sprintf("(bnil %s)", v.T)
	case "Iface":
		return fmt.Sprintf("(= %s iface_nil)", v.T)
	case "Int":
		return fmt.Sprintf("(= %s 0)", v.T)
	}
	bad("nil comparison on sort %s", v.S)
	return ""
}

func (s *Sym) lenTerm(env *Env, v TV) string {
	switch v.S {
	case "Str":
		return "(slen " + v.T + ")"
	case "Bytes":
		return "(slen (cont " + v.T + "))"
	case "Slice":
		return "(sl-len " + v.T + ")"
	}
	if v.GT != nil {
		if mt, ok := v.GT.Underlying().(*types.Map); ok {
			dn, _ := MapMapNames(mt)
			ks := SortOf(mt.Key())
			d := s.getMap(env.st, dn, "(Array Int (Array "+ks+" Bool))")
			f := s.declareFun("msize:"+sortTag(ks), []string{"(Array " + ks + " Bool)"}, "Int")
			return fmt.Sprintf("(%s (select %s %s))", f, d, v.T)
		}
	}
	bad("len of sort %s", v.S)
	return ""
}

func (s *Sym) evCall(env *Env, x ECall) TV {
	if x.Recv != nil {
		return s.evMethodCall(env, x)
	}
	argv := func() []TV {
		var r []TV
		for _, a := range x.Args {
			r = append(r, s.ev(env, a))
		}
		return r
	}
	switch x.Fn {
	case "len":
		return TV{T: s.lenTerm(env, s.ev(env, x.Args[0])), S: "Int"}
	case "bytesEq":
		a := argv()
		return TV{T: fmt.Sprintf("(= %s %s)", contOf(a[0]), contOf(a[1])), S: "Bool"}
	case "str":
		a := argv()
		return TV{T: contOf(a[0]), S: "Str"}
	case "bytes":
		a := argv()
		return TV{T: "(mk-bytes false " + a[0].T + ")", S: "Bytes", GT: types.NewSlice(types.Typ[types.Byte])}
	case "isnil":
		a := argv()
		return TV{T: s.isNilTerm(a[0]), S: "Bool"}
	case "in":
		a := argv()
		m, k := a[0], a[1]
		if strings.HasPrefix(m.S, "(Array ") {
			return TV{T: fmt.Sprintf("(select %s %s)", m.T, k.T), S: "Bool"}
		}
		mt, ok := m.GT.Underlying().(*types.Map)
		if !ok {
			bad("in() needs a map")
		}
		dn, _ := MapMapNames(mt)
		ks := SortOf(mt.Key())
		d := s.getMap(env.st, dn, "(Array Int (Array "+ks+" Bool))")
		return TV{T: fmt.Sprintf("(and (not (= %s 0)) (select (select %s %s) %s))", m.T, d, m.T, k.T), S: "Bool"}
	case "typeis", "typeisval":
		v := s.ev(env, x.Args[0])
		id, ok := x.Args[1].(EIdent)
		var tn string
		if ok {
			tn = id.Name
		} else if f, ok := x.Args[1].(EField); ok {
			tn = f.X.String() + "." + f.Name
		}
		t := s.P.namedType(tn)
		if t == nil {
			// a type that is not part of the loaded program cannot be a dynamic type here
			return TV{T: "false", S: "Bool"}
		}
		if x.Fn == "typeisval" {
			return TV{T: fmt.Sprintf("(= (ityp %s) %s)", v.T, s.typeID(t)), S: "Bool"}
		}
		return TV{T: fmt.Sprintf("(= (ityp %s) %s)", v.T, s.typeID(types.NewPointer(t))), S: "Bool"}
	case "sel":
		a := argv()
		return TV{T: fmt.Sprintf("(select %s %s)", a[0].T, a[1].T), S: arrayElemSort(a[0].S)}
	case "upd":
		a := argv()
		if a[2].S == "Nil" && strings.HasPrefix(a[0].S, "(Array ") {
			a[2] = TV{T: zeroOf(arrayElemSort(a[0].S)), S: arrayElemSort(a[0].S)}
		}
		return TV{T: fmt.Sprintf("(store %s %s %s)", a[0].T, a[1].T, a[2].T), S: a[0].S}
	case "min":
		a := argv()
		return TV{T: fmt.Sprintf("(ite (<= %s %s) %s %s)", a[0].T, a[1].T, a[0].T, a[1].T), S: a[0].S}
	case "max":
		a := argv()
		return TV{T: fmt.Sprintf("(ite (>= %s %s) %s %s)", a[0].T, a[1].T, a[0].T, a[1].T), S: a[0].S}
	case "abs":
		a := argv()
		return TV{T: fmt.Sprintf("(ite (>= %s 0) %s (- %s))", a[0].T, a[0].T, a[0].T), S: a[0].S}
	case "toreal":
		a := argv()
		if a[0].S == "Real" {
			return a[0]
		}
		return TV{T: "(to_real " + a[0].T + ")", S: "Real"}
	case "mathdiv":
		a := argv()
		return TV{T: fmt.Sprintf("(div %s %s)", a[0].T, a[1].T), S: "Int"}
	case "mathmod":
		a := argv()
		return TV{T: fmt.Sprintf("(mod %s %s)", a[0].T, a[1].T), S: "Int"}
	case "mapsFrame": // mapsFrame(keySort, valSort, except): every map object of that type that existed in the old state, except one, is unchanged
		if env.old == nil || len(x.Args) != 3 {
			bad("mapsFrame(keySort, valSort, exceptMap) needs an old state")
		}
		ks, _ := s.P.specType(x.Args[0].(EIdent).Name)
		vs, _ := s.P.specType(x.Args[1].(EIdent).Name)
		ex := s.ev(env, x.Args[2])
		exT := ex.T
		if ex.S == "Nil" {
			exT = "(- 1)" // no exception (the nil map, reference 0, is never written)
		}
		dn := "MD:" + sortTag(ks) + ":" + sortTag(vs)
		vn := "MV:" + sortTag(ks) + ":" + sortTag(vs)
		dms := "(Array Int (Array " + ks + " Bool))"
		vms := "(Array Int (Array " + ks + " " + vs + "))"
		d1, d0 := s.getMap(env.st, dn, dms), s.getMap(env.old, dn, dms)
		v1, v0 := s.getMap(env.st, vn, vms), s.getMap(env.old, vn, vms)
		return TV{T: fmt.Sprintf("(forall ((mm Int)) (=> (and (<= mm %s) (or (= mm 0) (not (= mm %s)))) (and (= (select %s mm) (select %s mm)) (= (select %s mm) (select %s mm)))))", s.top(env.old), exT, d1, d0, v1, v0), S: "Bool"}
	case "slicesFrame": // slicesFrame(elemSort): the backing arrays that existed in the old state are unchanged
		if env.old == nil || len(x.Args) != 1 {
			bad("slicesFrame(elemSort) needs an old state")
		}
		es, _ := s.P.specType(typeArgString(x.Args[0]))
		name := "E:" + sortTag(es)
		ms := "(Array Int " + mapSortOfElem(es) + ")"
		e1, e0 := s.getMap(env.st, name, ms), s.getMap(env.old, name, ms)
		return TV{T: fmt.Sprintf("(forall ((aa Int)) (=> (<= aa %s) (= (select %s aa) (select %s aa))))", s.top(env.old), e1, e0), S: "Bool"}
	case "content": // content(slice): the backing array's current content as an array value (a rigid snapshot)
		a := argv()
		if a[0].S != "Slice" {
			bad("content() needs a slice")
		}
		es := "Int"
		if a[0].GT != nil {
			if st, ok := a[0].GT.Underlying().(*types.Slice); ok {
				es = SortOf(st.Elem())
			}
		}
		m := s.getMap(env.st, "E:"+sortTag(es), "(Array Int "+mapSortOfElem(es)+")")
		return TV{T: fmt.Sprintf("(select %s (sl-arr %s))", m, a[0].T), S: mapSortOfElem(es)}
	case "structkey": // structkey(T, f1, ..., fn): the map key of a struct value of type T with these field values
		if len(x.Args) < 2 {
			bad("structkey(T, fields...)")
		}
		tn := typeArgString(x.Args[0])
		nt := s.P.namedType(tn)
		if nt == nil {
			bad("structkey: unknown type %s", tn)
		}
		var sorts, args []string
		for _, a := range x.Args[1:] {
			v := s.ev(env, a)
			sorts = append(sorts, v.S)
			args = append(args, v.T)
		}
		f := s.declareFun("canon:"+typeShort(nt), sorts, "Int")
		return TV{T: fmt.Sprintf("(%s %s)", f, strings.Join(args, " ")), S: "Int"}
	case "substr": // substr(s, lo, hi): the bytes lo..hi-1 of a string (as the slice expression s[lo:hi])
		a := argv()
		t := a[0].T
		if a[0].S == "Bytes" {
			t = "(cont " + t + ")"
		}
		return TV{T: fmt.Sprintf("(ssub %s %s %s)", t, a[1].T, a[2].T), S: "Str"}
	case "zeromap": // zeromap(keySort, valSort): the array that maps every key to the zero value
		if len(x.Args) != 2 {
			bad("zeromap(keySort, valSort)")
		}
		ks, _ := s.P.specType(typeArgString(x.Args[0]))
		vs, _ := s.P.specType(typeArgString(x.Args[1]))
		return TV{T: s.constArray(ks, vs), S: "(Array " + ks + " " + vs + ")"}
	case "allocTop": // allocation watermark of the current state (all allocated references are <= it)
		return TV{T: s.top(env.st), S: "Int"}
	case "isfresh": // reference allocated after the old state
		a := argv()
		if env.old == nil {
			bad("isfresh needs an old state")
		}
		return TV{T: fmt.Sprintf("(and (> %s %s) (<= %s %s))", a[0].T, s.top(env.old), a[0].T, s.top(env.st)), S: "Bool"}
	case "boxed": // the interface value MakeInterface builds from a typed value
		a := argv()
		if a[0].GT == nil && a[0].S == "Str" {
			a[0].GT = types.Typ[types.String]
		}
		if a[0].GT == nil && a[0].S == "Int" {
			a[0].GT = types.Typ[types.Int] // len(...), integer literals
		}
		if a[0].GT == nil {
			bad("boxed() needs a value with a Go type")
		}
		fr := s.newFrame(s.Top, 0)
		payload := fr.box(a[0], env.st)
		return TV{T: fmt.Sprintf("(mk-iface %s %s)", s.typeID(a[0].GT), payload), S: "Iface"}
	case "unboxStr": // the string an interface value holds (meaningful when its dynamic type is string)
		a := argv()
		fr := s.newFrame(s.Top, 0)
		return fr.unbox("(ival "+a[0].T+")", types.Typ[types.String])
	case "unboxLen": // length of the slice an interface value holds (meaningful when its dynamic type is a slice)
		a := argv()
		fr := s.newFrame(s.Top, 0)
		sl := fr.unbox("(ival "+a[0].T+")", types.NewSlice(types.Typ[types.UnsafePointer]))
		return TV{T: "(sl-len " + sl.T + ")", S: "Int"}
	case "ifacePtr": // payload reference of an interface value
		a := argv()
		return TV{T: "(ival " + a[0].T + ")", S: "Int"}
	case "slice": // slice(arr, len)
		a := argv()
		return TV{T: fmt.Sprintf("(mk-slice %s %s)", a[0].T, a[1].T), S: "Slice"}
	}
	if sf, ok := s.P.Specs.Spec[x.Fn]; ok {
		return s.applySpec(env, sf, argv())
	}
	// pure function under contract, by (suffix of) key, optionally name#k
	name, idx := x.Fn, 0
	if i := strings.Index(name, "#"); i >= 0 {
		idx, _ = strconv.Atoi(name[i+1:])
		name = name[:i]
	}
	if fc, key := s.P.findPure(name, env.pkg); fc != nil {
		return s.applyPure(key, idx, argv())
	}
	bad("unknown function %s", x.Fn)
	return TV{}
}

func contOf(v TV) string {
	switch v.S {
	case "Bytes":
		return "(cont " + v.T + ")"
	case "Str":
		return v.T
	}
	bad("bytesEq/str on sort %s", v.S)
	return ""
}

func (s *Sym) applyPure(key string, idx int, args []TV) TV {
	sig := s.P.sigOf(key)
	if sig == nil {
		bad("no signature for pure function %s", key)
	}
	if idx >= sig.Results().Len() {
		bad("pure function %s has no result %d", key, idx)
	}
	rt := sig.Results().At(idx).Type()
	var as, ss []string
	for _, a := range args {
		as = append(as, a.T)
		ss = append(ss, a.S)
	}
	f := s.declareFun(key+"#"+strconv.Itoa(idx), ss, SortOf(rt))
	if len(as) == 0 {
		return TV{T: f, S: SortOf(rt), GT: rt}
	}
	return TV{T: fmt.Sprintf("(%s %s)", f, strings.Join(as, " ")), S: SortOf(rt), GT: rt}
}

func (s *Sym) evMethodCall(env *Env, x ECall) TV {
	// pkg.Func(args)?
	if id, ok := x.Recv.(EIdent); ok {
		if _, isVar := env.lookup(id.Name); !isVar {
			if _, isGhost := s.P.Specs.Ghost[id.Name]; !isGhost {
				full := id.Name + "." + x.Fn
				var args []TV
				for _, a := range x.Args {
					args = append(args, s.ev(env, a))
				}
				name, idx := full, 0
				if i := strings.Index(name, "#"); i >= 0 {
					idx, _ = strconv.Atoi(name[i+1:])
					name = name[:i]
				}
				// resolve the qualifier through the imports of the contract's package
				if env.pkg != nil {
					for _, imp := range env.pkg.Imports() {
						if imp.Name() == id.Name || lastSeg(imp.Path()) == id.Name {
							k := imp.Path() + "." + strings.TrimPrefix(name, id.Name+".")
							if fc := s.P.contractFor(k); fc != nil && fc.Pure {
								return s.applyPure(k, idx, args)
							}
						}
					}
				}
				if fc, key := s.P.findPure(name, env.pkg); fc != nil {
					return s.applyPure(key, idx, args)
				}
				bad("unknown function %s", full)
			}
		}
	}
	recv := s.ev(env, x.Recv)
	if recv.GT == nil {
		bad("method call on untyped value")
	}
	name, idx := x.Fn, 0
	if i := strings.Index(name, "#"); i >= 0 {
		idx, _ = strconv.Atoi(name[i+1:])
		name = name[:i]
	}
	var key string
	if it, isI := recv.GT.Underlying().(*types.Interface); isI {
		key = typeShort(recv.GT) + "." + name
		for i := 0; i < it.NumMethods(); i++ {
			if it.Method(i).Name() == name {
				key = IfaceMethodKey(recv.GT, it.Method(i))
			}
		}
	} else if n := namedOf(recv.GT); n != nil {
		key = typeShort(n) + "." + name
	}
	fc := s.P.contractFor(key)
	if fc == nil || !fc.Pure {
		bad("method %s is not declared pure (key %s)", x.Fn, key)
	}
	args := []TV{recv}
	for _, a := range x.Args {
		args = append(args, s.ev(env, a))
	}
	return s.applyPure(key, idx, args)
}

// ---------------------------------------------------------------------------
// spec functions (closure-converted over the heap maps they read)

func (s *Sym) applySpec(env *Env, sf *SpecFunc, args []TV) TV {
	if len(args) != len(sf.Params) {
		bad("spec function %s expects %d arguments, got %d", sf.Name, len(sf.Params), len(args))
	}
	if sf.Macro {
		c := env.child()
		// macros see only their parameters (hygiene) plus globals
		c.parent = nil
		c.local = nil
		c.alias = nil
		c.localFirst = false
		for i, p := range sf.Params {
			c.vars[p.Name] = args[i]
		}
		return s.ev(c, sf.Body)
	}
	ret, retGT := s.P.specType(sf.Ret)
	var as []string
	for i, p := range sf.Params {
		want, _ := s.P.specType(p.Type)
		a := args[i]
		if a.S == "Nil" {
			a = TV{T: zeroOf(want), S: want}
		}
		if a.S == "Int" && want == "Real" {
			a = TV{T: "(to_real " + a.T + ")", S: "Real"}
		}
		if a.S != want {
			bad("spec function %s: argument %d has sort %s, want %s", sf.Name, i+1, a.S, want)
		}
		as = append(as, a.T)
	}
	if sf.Body == nil {
		var ps []string
		for _, p := range sf.Params {
			so, _ := s.P.specType(p.Type)
			ps = append(ps, so)
		}
		f := s.declareFun("spec:"+sf.Name, ps, ret)
		if len(as) == 0 {
			return TV{T: f, S: ret, GT: retGT}
		}
		return TV{T: fmt.Sprintf("(%s %s)", f, strings.Join(as, " ")), S: ret, GT: retGT}
	}
	foot := s.defineSpec(sf)
	var hs []string
	for _, m := range foot {
		hs = append(hs, s.getMap(env.st, m, s.mapSort[m]))
	}
	all := append(hs, as...)
	if len(all) == 0 {
		return TV{T: q("spec:" + sf.Name), S: ret, GT: retGT}
	}
	return TV{T: fmt.Sprintf("(%s %s)", q("spec:"+sf.Name), strings.Join(all, " ")), S: ret, GT: retGT}
}

// defineSpec emits the definition of a spec function (once) and returns its heap footprint.
func (s *Sym) defineSpec(sf *SpecFunc) []string {
	if s.specDefined[sf.Name] {
		return s.specFoot[sf.Name]
	}
	if s.specBusy[sf.Name] {
		// recursive use while computing: footprint known from pass 1 (or empty during pass 1)
		return s.specFoot[sf.Name]
	}
	s.specBusy[sf.Name] = true
	defer func() { s.specBusy[sf.Name] = false }()
	ret, _ := s.P.specType(sf.Ret)
	mkEnv := func(rec *State) *Env {
		env := s.newEnv(nil)
		env.st = rec
		env.old = rec
		for _, p := range sf.Params {
			so, gt := s.P.specType(p.Type)
			env.vars[p.Name] = TV{T: q("sp:" + p.Name), S: so, GT: gt}
		}
		return env
	}
	// pass 1: discover the footprint (emitted lines are discarded)
	saveLines := len(s.lines)
	rec := &State{Guard: "true", Maps: map[string]string{}}
	recState[rec] = &recorder{}
	s.ev(mkEnv(rec), sf.Body)
	foot := recState[rec].names
	delete(recState, rec)
	// keep declarations emitted during pass 1 (string constants, functions): they are harmless
	_ = saveLines
	s.specFoot[sf.Name] = foot
	// pass 2: emit the definition
	rec2 := &State{Guard: "true", Maps: map[string]string{}}
	recState[rec2] = &recorder{}
	recursive := false
	s.specBusy[sf.Name] = true
	bodyEnv := mkEnv(rec2)
	// detect recursion syntactically
	recursive = strings.Contains(sf.BodySrc, sf.Name+"(")
	body := s.ev(bodyEnv, sf.Body)
	foot2 := recState[rec2].names
	delete(recState, rec2)
	if len(foot2) != len(foot) {
		s.fail("spec function %s: unstable heap footprint", sf.Name)
	}
	var params []string
	for _, m := range foot {
		params = append(params, fmt.Sprintf("(%s %s)", q("hp:"+m), s.mapSort[m]))
	}
	for _, p := range sf.Params {
		so, _ := s.P.specType(p.Type)
		params = append(params, fmt.Sprintf("(%s %s)", q("sp:"+p.Name), so))
	}
	b := body
	if b.S == "Int" && ret == "Real" {
		b = TV{T: "(to_real " + b.T + ")", S: "Real"}
	}
	if b.S != ret && !sf.FootOnly {
		s.fail("spec function %s: body has sort %s, declared %s", sf.Name, b.S, ret)
	}
	kw := "define-fun"
	if recursive {
		kw = "define-fun-rec"
	}
	if sf.FootOnly || (sf.Opaque && !s.revealed[sf.Name]) {
		// opaque here: an uninterpreted function of the same signature
		var sorts []string
		for _, m := range foot {
			sorts = append(sorts, s.mapSort[m])
		}
		for _, p := range sf.Params {
			so, _ := s.P.specType(p.Type)
			sorts = append(sorts, so)
		}
		s.emit(fmt.Sprintf("(declare-fun %s (%s) %s)", q("spec:"+sf.Name), strings.Join(sorts, " "), ret))
		s.specDefined[sf.Name] = true
		return foot
	}
	s.emit(fmt.Sprintf("(%s %s (%s) %s %s)", kw, q("spec:"+sf.Name), strings.Join(params, " "), ret, b.T))
	s.specDefined[sf.Name] = true
	return foot
}

// typeArgString renders an expression used as a type argument (T, *T, pkg.T, "[]*T").
func typeArgString(e Expr) string {
	switch x := e.(type) {
	case EIdent:
		return x.Name
	case EStr:
		return x.V
	case EUn:
		if x.Op == "*" {
			return "*" + typeArgString(x.X)
		}
	case EField:
		return typeArgString(x.X) + "." + x.Name
	}
	return e.String()
}

type recorder struct{ names []string }

var recState = map[*State]*recorder{}

// useAxiom adds a named axiom to the prefix (once).
func (s *Sym) useAxiom(name string) {
	if s.axiomsUsed[name] {
		return
	}
	ax, ok := s.P.Specs.Axioms[name]
	if !ok {
		// a lemma (proved as its own obligation under its property) may be used like an axiom
		for _, lm := range s.P.Specs.Lemmas {
			if lm.Name == name {
				ax, ok = &Axiom{Name: lm.Name, E: lm.E}, true
			}
		}
	}
	if !ok {
		s.fail("unknown axiom %s", name)
		return
	}
	s.axiomsUsed[name] = true
	env := s.newEnv(nil)
	if s.Top != nil && s.Top.Pkg != nil {
		env.pkg = s.Top.Pkg.Pkg
	}
	env.st = s.entry
	env.old = s.entry
	t := s.evalBool(env, ax.E)
	s.emit("(assert " + t + ")")
}
