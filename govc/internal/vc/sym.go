package vc

// Symbolic-execution infrastructure: SMT prefix builder, states, heap maps,
// fresh names, obligations.

import (
	"fmt"
	"go/types"
	"sort"
	"strconv"
	"strings"

	"golang.org/x/tools/go/ssa"
)

// TV is a typed SMT term.
type TV struct {
	T  string     // SMT term
	S  string     // SMT sort
	GT types.Type // Go type when known
	// Tuple components for multi-valued SSA values
	Tup []TV
	Lit *string // string literal value when the term is a string constant
}

type State struct {
	Guard string
	Maps  map[string]string
}

func (s *State) clone() *State {
	m := make(map[string]string, len(s.Maps))
	for k, v := range s.Maps {
		m[k] = v
	}
	return &State{Guard: s.Guard, Maps: m}
}

type Obligation struct {
	Name    string
	Props   []string
	Kind    string // ensures | requires-call | loop-established | loop-preserved | safety | cover | lemma
	Func    string
	Label   string
	Goal    string // Bool term that must be valid under the prefix
	Prefix  int    // number of prefix lines visible
	Cover   bool   // expectation is SAT (vacuity guard)
	Src     string // contract clause text
	lines   []string
	Extra   []string // extra lines (axioms) placed after the prefix
	WitNames []string
	WitTerms []string
	Timeout int
}

type Sym struct {
	P        *Program
	Top      *ssa.Function
	FC       *FuncContract
	lines    []string
	definedNames map[string]bool // names introduced by define-fun (macros: unusable inside patterns)
	qvSort   map[string]string // sort of each bound variable name of the contract language (for quantified heap facts)
	declared map[string]bool
	nfresh   int
	mapSort  map[string]string
	entry    *State
	preMaps  []string
	havocs   int
	needRerun bool
	Obls     []*Obligation
	Notes    map[string]bool // abstractions: what the translation dropped
	Trusted  map[string]bool // trusted contracts used
	Assumed  map[string]bool // external functions assumed effect-free
	Opaque   map[string]bool // repo functions treated as opaque (mod-set havoc)
	Inlined  map[string]bool
	Contracts map[string]bool // callee contracts used
	strConsts map[string]string
	errGlobals []string
	typeIDs  map[string]int
	axiomsUsed map[string]bool
	specDefined map[string]bool
	specFoot map[string][]string // closure-converted heap footprint of spec functions
	specBusy map[string]bool
	revealed map[string]bool
	subIdx   map[string]int
	Err      error
	actCount int
}

const preamble = `(set-logic ALL)
(declare-sort Str 0)
(declare-fun slen (Str) Int)
(declare-const str_empty Str)
(assert (= (slen str_empty) 0))
(declare-datatypes ((Bytes 0)) (((mk-bytes (bnil Bool) (cont Str)))))
(declare-datatypes ((Slice 0)) (((mk-slice (sl-arr Int) (sl-len Int)))))
(declare-datatypes ((Iface 0)) (((mk-iface (ityp Int) (ival Int)))))
(define-fun iface_nil () Iface (mk-iface 0 0))
(define-fun bytes_nil () Bytes (mk-bytes true str_empty))
(define-fun slice_nil () Slice (mk-slice 0 0))
(declare-sort Trace 0)
(declare-fun sconcat (Str Str) Str)
(declare-fun ssub (Str Int Int) Str)
(declare-fun sat (Str Int) Int)
(declare-fun slt (Str Str) Bool)
(define-fun godiv ((x Int) (y Int)) Int (ite (>= x 0) (div x y) (- (div (- x) y))))
(define-fun gomod ((x Int) (y Int)) Int (ite (>= x 0) (mod x y) (- (mod (- x) y))))
`

func NewSym(P *Program, fn *ssa.Function, fc *FuncContract) *Sym {
	s := &Sym{P: P, Top: fn, FC: fc}
	s.reset()
	return s
}

func (s *Sym) reset() {
	s.lines = nil
	s.declared = map[string]bool{}
	s.nfresh = 0
	if s.mapSort == nil {
		s.mapSort = map[string]string{}
	}
	s.havocs = 0
	s.needRerun = false
	s.Obls = nil
	s.Notes = map[string]bool{}
	s.Trusted = map[string]bool{}
	s.Assumed = map[string]bool{}
	s.Opaque = map[string]bool{}
	s.Inlined = map[string]bool{}
	s.Contracts = map[string]bool{}
	s.strConsts = map[string]string{}
	s.errGlobals = nil
	s.typeIDs = map[string]int{}
	s.axiomsUsed = map[string]bool{}
	s.specDefined = map[string]bool{}
	s.specFoot = map[string][]string{}
	s.specBusy = map[string]bool{}
	s.revealed = map[string]bool{}
	if s.subIdx == nil {
		s.subIdx = map[string]int{}
	}
	if s.FC != nil {
		for _, r := range s.FC.Reveals {
			s.revealed[r] = true
		}
	}
	s.actCount = 0
	s.Err = nil
	for _, l := range strings.Split(strings.TrimSpace(preamble), "\n") {
		s.lines = append(s.lines, l)
	}
}

func (s *Sym) emit(l string) { s.lines = append(s.lines, l) }

func q(name string) string {
	name = strings.ReplaceAll(name, "|", "!")
	name = strings.ReplaceAll(name, "\\", "!")
	return "|" + name + "|"
}

func (s *Sym) fresh(base, sort string) string {
	s.nfresh++
	n := q(base + "@" + strconv.Itoa(s.nfresh))
	s.emit(fmt.Sprintf("(declare-const %s %s)", n, sort))
	return n
}

// define introduces a named abbreviation for a term (keeps queries small).
func (s *Sym) define(base, sort, term string) string {
	if len(term) < 40 && !strings.Contains(term, "(ite ") {
		return term
	}
	s.nfresh++
	n := q(base + "@" + strconv.Itoa(s.nfresh))
	s.emit(fmt.Sprintf("(define-fun %s () %s %s)", n, sort, term))
	if s.definedNames == nil {
		s.definedNames = map[string]bool{}
	}
	s.definedNames[n] = true
	return n
}

func (s *Sym) declareFun(name string, args []string, ret string) string {
	qn := q(name)
	if !s.declared["fun:"+name] {
		s.declared["fun:"+name] = true
		s.emit(fmt.Sprintf("(declare-fun %s (%s) %s)", qn, strings.Join(args, " "), ret))
	}
	return qn
}

func (s *Sym) assume(st *State, cond string) {
	if cond == "true" {
		return
	}
	if st == nil || st.Guard == "true" {
		s.emit("(assert " + cond + ")")
	} else {
		s.emit(fmt.Sprintf("(assert (=> %s %s))", st.Guard, cond))
	}
}

func (s *Sym) note(format string, a ...interface{}) {
	s.Notes[fmt.Sprintf(format, a...)] = true
}

func (s *Sym) fail(format string, a ...interface{}) {
	if s.Err == nil {
		s.Err = fmt.Errorf(format, a...)
	}
}

func (s *Sym) addObl(o *Obligation) {
	o.Prefix = len(s.lines)
	o.Func = FuncKey(s.Top)
	s.Obls = append(s.Obls, o)
}

// ---------------------------------------------------------------------------
// heap maps

func mapSortOfElem(valSort string) string { return "(Array Int " + valSort + ")" }

// getMap returns the current term of a heap map, declaring it on first use.
func (s *Sym) getMap(st *State, name, sort string) string {
	if t, ok := st.Maps[name]; ok {
		return t
	}
	if _, known := s.mapSort[name]; !known {
		s.mapSort[name] = sort
	}
	if r, ok := recState[st]; ok {
		// spec-function body: heap maps become parameters (closure conversion)
		r.names = append(r.names, name)
		st.Maps[name] = q("hp:" + name)
		return st.Maps[name]
	}
	init := q(name + "@0")
	if !s.declared["map:"+name] {
		s.declared["map:"+name] = true
		s.emit(fmt.Sprintf("(declare-const %s %s)", init, s.mapSort[name]))
		if s.entry != nil {
			s.entry.Maps[name] = init
		}
		if s.havocs > 0 {
			// first touched after a havoc: the entry set was incomplete, run again
			s.needRerun = true
		}
		if name == "TOP" {
			s.emit(fmt.Sprintf("(assert (>= %s 0))", init))
		}
	}
	st.Maps[name] = init
	return init
}

func (s *Sym) setMap(st *State, name, sort, term string) {
	s.getMap(st, name, sort) // make sure it is registered
	st.Maps[name] = s.define(name, s.mapSort[name], term)
}

func (s *Sym) top(st *State) string { return s.getMap(st, "TOP", "Int") }

// allocRef returns a fresh reference above the allocation watermark.
func (s *Sym) allocRef(st *State, base string) string {
	r := s.fresh(base, "Int")
	s.assume(st, fmt.Sprintf("(> %s %s)", r, s.top(st)))
	st.Maps["TOP"] = s.mergeITE(st, "TOP", "Int", r)
	return r
}

// mergeITE: a value that equals term on this path (guard irrelevant because state is path-local)
func (s *Sym) mergeITE(st *State, name, sort, term string) string { return term }

// havoc replaces the named maps by fresh constants. names may contain ModStar.
func (s *Sym) havoc(st *State, names []string, why string) {
	s.havocs++
	star := false
	set := map[string]bool{}
	for _, n := range names {
		if n == ModStar {
			star = true
		}
		set[n] = true
	}
	var keys []string
	for k := range st.Maps {
		keys = append(keys, k)
	}
	sort.Strings(keys)
	for _, k := range keys {
		if k == "TOP" {
			continue
		}
		if strings.HasPrefix(k, "D:") {
			continue
		}
		if strings.HasPrefix(k, "H:") && !set[k] {
			continue // ghost state only changes through contracts
		}
		if (strings.HasPrefix(k, "L:") || strings.HasPrefix(k, "R:")) && !set[k] {
			continue // non-escaping local cells are invisible to callees
		}
		if strings.HasPrefix(k, "G:") && s.isErrGlobal(k) {
			continue
		}
		if star || set[k] {
			st.Maps[k] = s.fresh(k, s.mapSort[k])
		}
	}
	for _, n := range names {
		if n == ModStar || n == "ARGSTAR" || n == "BYTESWRITE" {
			continue
		}
		if _, ok := st.Maps[n]; !ok {
			if _, known := s.mapSort[n]; known {
				st.Maps[n] = s.fresh(n, s.mapSort[n])
			} else {
				// map not referenced anywhere (yet): remember that a havoc touched it
				s.pendingHavoc(n)
			}
		}
	}
	// allocation watermark may grow
	oldTop := s.top(st)
	nt := s.fresh("TOP", "Int")
	s.assume(st, fmt.Sprintf("(>= %s %s)", nt, oldTop))
	st.Maps["TOP"] = nt
}

func (s *Sym) pendingHavoc(name string) {
	// If the map is referenced later in this pass, getMap sets needRerun because
	// havocs > 0; nothing else to do.
}

func (s *Sym) isErrGlobal(mapName string) bool {
	for _, g := range s.errGlobals {
		if g == mapName {
			return true
		}
	}
	return false
}

// merge joins states at a control-flow join.
func (s *Sym) merge(states []*State) *State {
	if len(states) == 1 {
		return states[0].clone()
	}
	var gs []string
	for _, st := range states {
		gs = append(gs, st.Guard)
	}
	out := &State{Maps: map[string]string{}}
	out.Guard = s.define("g", "Bool", mkOr(gs))
	names := map[string]bool{}
	for _, st := range states {
		for k := range st.Maps {
			names[k] = true
		}
	}
	var keys []string
	for k := range names {
		keys = append(keys, k)
	}
	sort.Strings(keys)
	for _, k := range keys {
		var vals []string
		same := true
		for _, st := range states {
			v, ok := st.Maps[k]
			if !ok {
				v = s.getMap(st, k, s.mapSort[k])
			}
			vals = append(vals, v)
			if v != vals[0] {
				same = false
			}
		}
		if same {
			out.Maps[k] = vals[0]
			continue
		}
		out.Maps[k] = s.define(k, s.mapSort[k], iteChain(gs, vals))
	}
	return out
}

func iteChain(guards, vals []string) string {
	if len(vals) == 1 {
		return vals[0]
	}
	// ite(g1, v1, ite(g2, v2, ... vn))
	res := vals[len(vals)-1]
	for i := len(vals) - 2; i >= 0; i-- {
		if vals[i] == res {
			continue
		}
		res = fmt.Sprintf("(ite %s %s %s)", guards[i], vals[i], res)
	}
	return res
}

func mkAnd(xs []string) string {
	var r []string
	for _, x := range xs {
		if x == "true" {
			continue
		}
		if x == "false" {
			return "false"
		}
		r = append(r, x)
	}
	switch len(r) {
	case 0:
		return "true"
	case 1:
		return r[0]
	}
	return "(and " + strings.Join(r, " ") + ")"
}

func mkOr(xs []string) string {
	var r []string
	for _, x := range xs {
		if x == "false" {
			continue
		}
		if x == "true" {
			return "true"
		}
		r = append(r, x)
	}
	switch len(r) {
	case 0:
		return "false"
	case 1:
		return r[0]
	}
	return "(or " + strings.Join(r, " ") + ")"
}

func mkNot(x string) string {
	if x == "true" {
		return "false"
	}
	if x == "false" {
		return "true"
	}
	if strings.HasPrefix(x, "(not ") && strings.HasSuffix(x, ")") && balanced(x[5:len(x)-1]) {
		return x[5 : len(x)-1]
	}
	return "(not " + x + ")"
}

func balanced(x string) bool {
	d := 0
	inq := false
	for i := 0; i < len(x); i++ {
		switch x[i] {
		case '|':
			inq = !inq
		case '(':
			if !inq {
				d++
			}
		case ')':
			if !inq {
				d--
				if d < 0 {
					return false
				}
			}
		case ' ':
			if d == 0 && !inq {
				return false
			}
		}
	}
	return d == 0
}

func intLit(n string) string {
	if strings.HasPrefix(n, "-") {
		return "(- " + n[1:] + ")"
	}
	return n
}

// zeroOf returns the zero value of a sort.
func zeroOf(sort string) string {
	switch sort {
	case "Int":
		return "0"
	case "Bool":
		return "false"
	case "Real":
		return "0.0"
	case "Str":
		return "str_empty"
	case "Bytes":
		return "bytes_nil"
	case "Slice":
		return "slice_nil"
	case "Iface":
		return "iface_nil"
	}
	return "0"
}

func (s *Sym) typeID(t types.Type) string {
	k := strings.ReplaceAll(t.String(), "[]byte", "[]uint8")
	if id, ok := s.typeIDs[k]; ok {
		return strconv.Itoa(id)
	}
	// stable id: position in sorted order is not available incrementally; use a hash
	h := 0
	for i := 0; i < len(k); i++ {
		h = (h*131 + int(k[i])) % 1000000007
	}
	id := 1000 + h
	for {
		clash := false
		for _, v := range s.typeIDs {
			if v == id {
				clash = true
			}
		}
		if !clash {
			break
		}
		id++
	}
	s.typeIDs[k] = id
	return strconv.Itoa(id)
}

// strConst returns the SMT constant of a string literal.
func (s *Sym) strConst(v string) string {
	if v == "" {
		return "str_empty"
	}
	if n, ok := s.strConsts[v]; ok {
		return n
	}
	disp := v
	if len(disp) > 40 {
		disp = disp[:40] + "..."
	}
	disp = strings.Map(func(r rune) rune {
		if r < 32 || r > 126 || r == '|' || r == '\\' {
			return '?'
		}
		return r
	}, disp)
	s.nfresh++
	n := q("str:" + disp + "#" + strconv.Itoa(s.nfresh))
	s.emit(fmt.Sprintf("(declare-const %s Str)", n))
	s.emit(fmt.Sprintf("(assert (= (slen %s) %d))", n, len(v)))
	var keys []string
	for k := range s.strConsts {
		keys = append(keys, k)
	}
	sort.Strings(keys)
	for _, k := range keys {
		s.emit(fmt.Sprintf("(assert (not (= %s %s)))", n, s.strConsts[k]))
	}
	// first byte, useful for prefix reasoning on constants
	s.emit(fmt.Sprintf("(assert (= (sat %s 0) %d))", n, v[0]))
	s.strConsts[v] = n
	return n
}

// assumeType emits the representation invariants of a fresh / loaded value.
func (s *Sym) assumeType(st *State, v TV) {
	switch v.S {
	case "Int":
		if v.GT != nil {
			switch u := v.GT.Underlying().(type) {
			case *types.Basic:
				if u.Info()&types.IsUnsigned != 0 {
					s.assume(st, fmt.Sprintf("(>= %s 0)", v.T))
				}
			case *types.Pointer, *types.Map, *types.Chan, *types.Struct:
				s.assume(st, fmt.Sprintf("(and (>= %s 0) (<= %s %s))", v.T, v.T, s.top(st)))
			}
		}
	case "Slice":
		s.assume(st, fmt.Sprintf("(and (>= (sl-len %s) 0) (>= (sl-arr %s) 0) (<= (sl-arr %s) %s) (=> (= (sl-arr %s) 0) (= (sl-len %s) 0)))", v.T, v.T, v.T, s.top(st), v.T, v.T))
	case "Bytes":
		s.assume(st, fmt.Sprintf("(and (>= (slen (cont %s)) 0) (=> (bnil %s) (= (cont %s) str_empty)) (=> (= (slen (cont %s)) 0) (= (cont %s) str_empty)))", v.T, v.T, v.T, v.T, v.T))
	case "Str":
		s.assume(st, fmt.Sprintf("(and (>= (slen %s) 0) (=> (= (slen %s) 0) (= %s str_empty)))", v.T, v.T, v.T))
	case "Iface":
		s.assume(st, fmt.Sprintf("(and (>= (ival %s) 0) (=> (= (ityp %s) 0) (= (ival %s) 0)))", v.T, v.T, v.T))
	}
}

// freshValue makes an unconstrained value of a Go type.
func (s *Sym) freshValue(st *State, base string, t types.Type) TV {
	if tup, ok := t.(*types.Tuple); ok {
		var comps []TV
		for i := 0; i < tup.Len(); i++ {
			comps = append(comps, s.freshValue(st, base+"."+strconv.Itoa(i), tup.At(i).Type()))
		}
		return TV{S: "Tuple", GT: t, Tup: comps}
	}
	so := SortOf(t)
	v := TV{T: s.fresh(base, so), S: so, GT: t}
	s.assumeType(st, v)
	return v
}

// constArray returns an array term mapping every index to the zero value of
// the element sort. cvc5 accepts (as const ...) only for values, so sorts whose
// zero is not a value get a fresh array with a quantified axiom.
func (s *Sym) constArray(idxSort, elemSort string) string {
	arrSort := "(Array " + idxSort + " " + elemSort + ")"
	switch elemSort {
	case "Int", "Bool", "Real":
		return fmt.Sprintf("((as const %s) %s)", arrSort, zeroOf(elemSort))
	case "Slice":
		return fmt.Sprintf("((as const %s) (mk-slice 0 0))", arrSort)
	case "Iface":
		return fmt.Sprintf("((as const %s) (mk-iface 0 0))", arrSort)
	}
	key := "zeroarr:" + arrSort
	n := q(key)
	if !s.declared[key] {
		s.declared[key] = true
		s.emit(fmt.Sprintf("(declare-const %s %s)", n, arrSort))
		s.emit(fmt.Sprintf("(assert (forall ((i %s)) (! (= (select %s i) %s) :pattern ((select %s i)))))", idxSort, n, zeroOf(elemSort), n))
	}
	return n
}

// subRef is the reference of a struct-typed field embedded by value in the
// object at base: an injective arithmetic encoding into the negative integers
// (never an allocated reference, distinct for distinct (object, field) pairs).
func (s *Sym) subRef(fieldMap, base string) string {
	idx, ok := s.subIdx[fieldMap]
	if !ok {
		idx = len(s.subIdx) + 1
		s.subIdx[fieldMap] = idx
	}
	return fmt.Sprintf("(- 0 (+ (* %s 4096) %d))", base, idx)
}
