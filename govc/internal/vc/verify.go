package vc

// Per-function verification driver: builds the obligations of one function
// under contract, and the lemma obligations of a property.

import (
	"fmt"
	"go/types"
	"sort"
	"strconv"
	"strings"

	"golang.org/x/tools/go/ssa"
)

// Program helpers -----------------------------------------------------------

func (P *Program) namedType(name string) *types.Named {
	// "pkgname.Type" or "Type"
	var cands []*types.Named
	check := func(n *types.Named) {
		if n.Obj().Pkg() == nil {
			return
		}
		if n.Obj().Name() == name || n.Obj().Pkg().Name()+"."+n.Obj().Name() == name || lastSeg(n.Obj().Pkg().Path())+"."+n.Obj().Name() == name || n.Obj().Pkg().Path()+"."+n.Obj().Name() == name {
			cands = append(cands, n)
		}
	}
	for _, n := range P.allNamed {
		check(n)
	}
	if len(cands) == 0 {
		// search all loaded packages (external types)
		for _, sp := range P.Prog.AllPackages() {
			for _, m := range sp.Members {
				if t, ok := m.(*ssa.Type); ok {
					if n, ok := t.Type().(*types.Named); ok {
						check(n)
					}
				}
			}
		}
	}
	if len(cands) == 0 {
		return nil
	}
	sort.Slice(cands, func(i, j int) bool { return cands[i].Obj().Pkg().Path() < cands[j].Obj().Pkg().Path() })
	return cands[0]
}

func (P *Program) pkgByName(name string) *types.Package {
	var best *types.Package
	for _, sp := range P.Prog.AllPackages() {
		if sp.Pkg.Name() == name || lastSeg(sp.Pkg.Path()) == name {
			if best == nil || (IsRepoPath(sp.Pkg.Path()) && !IsRepoPath(best.Path())) || (IsRepoPath(sp.Pkg.Path()) == IsRepoPath(best.Path()) && sp.Pkg.Path() < best.Path()) {
				best = sp.Pkg
			}
		}
	}
	return best
}

// specType resolves a type name of the contract language: builtin sort names,
// []T, *T and (qualified) Go type names.
func (P *Program) specType(t string) (string, types.Type) {
	switch t {
	case "int", "bool", "string", "bytes", "real", "ref", "iface", "slice", "error", "int64", "uint64", "int32", "uint32", "map", "ptr", "float64", "strset", "intset", "intarr", "strarr", "trace":
		return SpecSort(t), nil
	case "[]byte":
		return "Bytes", types.NewSlice(types.Typ[types.Byte])
	}
	if strings.HasPrefix(t, "(") {
		return t, nil
	}
	if strings.HasPrefix(t, "[]") {
		if g := SpecGoType(t); g != nil {
			return "Slice", g
		}
		_, et := P.specType(t[2:])
		if et == nil {
			return "Slice", nil
		}
		g := types.NewSlice(et)
		return SortOf(g), g
	}
	if strings.HasPrefix(t, "map[") {
		// map[K]V: a reference with the Go map type
		d, end := 0, -1
		for i := 3; i < len(t); i++ {
			if t[i] == '[' {
				d++
			} else if t[i] == ']' {
				d--
				if d == 0 {
					end = i
					break
				}
			}
		}
		if end > 0 {
			ks, kt := P.specType(t[4:end])
			vs, vt := P.specType(t[end+1:])
			if kt == nil {
				kt = goTypeOfSort(ks)
			}
			if vt == nil {
				vt = goTypeOfSort(vs)
			}
			if kt != nil && vt != nil {
				return "Int", types.NewMap(kt, vt)
			}
		}
		return "Int", nil
	}
	if strings.HasPrefix(t, "*") {
		_, et := P.specType(t[1:])
		if et == nil {
			return "Int", nil
		}
		return "Int", types.NewPointer(et)
	}
	if n := P.namedType(t); n != nil {
		return SortOf(n), n
	}
	return SpecSort(t), nil
}

func goTypeOfSort(so string) types.Type {
	switch so {
	case "Int":
		return types.Typ[types.Int]
	case "Str":
		return types.Typ[types.String]
	case "Bool":
		return types.Typ[types.Bool]
	case "Bytes":
		return types.NewSlice(types.Typ[types.Byte])
	}
	return nil
}

// findPure finds a pure function contract by (suffix of) key.
func (P *Program) findPure(name string, pkg *types.Package) (*FuncContract, string) {
	if fc, ok := P.Specs.Funcs[name]; ok && fc.Pure {
		return fc, name
	}
	if pkg != nil {
		if fc, ok := P.Specs.Funcs[pkg.Path()+"."+name]; ok && fc.Pure {
			return fc, pkg.Path() + "." + name
		}
	}
	var keys []string
	for k, fc := range P.Specs.Funcs {
		if fc.Pure && (strings.HasSuffix(k, "."+name) || strings.HasSuffix(k, "/"+name)) {
			keys = append(keys, k)
		}
	}
	sort.Strings(keys)
	if len(keys) >= 1 {
		return P.Specs.Funcs[keys[0]], keys[0]
	}
	return nil, ""
}

// sigOf finds the signature of a function by contract key.
func (P *Program) sigOf(key string) *types.Signature {
	if fn, ok := P.ByKey[key]; ok {
		return fn.Signature
	}
	// split "pkgpath.Type.Method" / "pkgpath.Func"
	slash := strings.LastIndex(key, "/")
	rest := key[slash+1:]
	parts := strings.Split(rest, ".")
	if len(parts) < 2 {
		return nil
	}
	pkgPath := key[:slash+1] + parts[0]
	var pkg *types.Package
	for _, sp := range P.Prog.AllPackages() {
		if sp.Pkg.Path() == pkgPath {
			pkg = sp.Pkg
			break
		}
	}
	if pkg == nil {
		return nil
	}
	obj := pkg.Scope().Lookup(parts[1])
	if obj == nil {
		return nil
	}
	if len(parts) == 2 {
		if f, ok := obj.(*types.Func); ok {
			return f.Type().(*types.Signature)
		}
		return nil
	}
	tn, ok := obj.(*types.TypeName)
	if !ok {
		return nil
	}
	for _, t := range []types.Type{tn.Type(), types.NewPointer(tn.Type())} {
		ms := types.NewMethodSet(t)
		for i := 0; i < ms.Len(); i++ {
			if ms.At(i).Obj().Name() == parts[2] {
				return ms.At(i).Obj().Type().(*types.Signature)
			}
		}
	}
	return nil
}

// ---------------------------------------------------------------------------

type FuncResult struct {
	Key     string
	File    string
	SrcHash string
	Sym     *Sym
	Obls    []*Obligation
	Err     error
}

func qualProps(fc *FuncContract, c Clause) []string {
	if c.Prop != "" {
		return []string{c.Prop}
	}
	return fc.Props
}

// VerifyFunc generates the obligations of one function under contract.
func (P *Program) VerifyFunc(fn *ssa.Function, fc *FuncContract) *FuncResult {
	s := NewSym(P, fn, fc)
	res := &FuncResult{Key: FuncKey(fn), File: P.RelFile(fn), Sym: s}
	for pass := 0; pass < 5; pass++ {
		s.reset()
		s.entry = &State{Guard: "true", Maps: map[string]string{}}
		// pre-declare the heap maps discovered by earlier passes
		var names []string
		for n := range s.mapSort {
			names = append(names, n)
		}
		sort.Strings(names)
		for _, n := range names {
			if strings.HasPrefix(n, "D:") {
				continue
			}
			s.getMap(s.entry, n, s.mapSort[n])
		}
		cur := s.entry.clone()
		fr := s.newFrame(fn, 0)
		fr.isTop = true
		env := s.newEnv(fn.Pkg.Pkg)
		env.alias = P.aliasFor(fn)
		if len(env.alias) > 0 {
			var rn []string
			for o, n := range env.alias {
				rn = append(rn, o+"->"+strings.Join(n, "|"))
			}
			sort.Strings(rn)
			s.note("%s: contract names resolved through renamed source names: %s", FuncKey(fn), strings.Join(rn, ", "))
		}
		env.st, env.old = s.entry, s.entry
		hasRecv := fn.Signature.Recv() != nil
		for i, p := range fn.Params {
			tv := s.freshValue(cur, "p:"+p.Name(), p.Type())
			fr.vals[p] = tv
			env.vars[p.Name()] = tv
			pi := i
			if hasRecv {
				pi = i - 1
			}
			if pi >= 0 {
				env.vars["$"+strconv.Itoa(pi)] = tv
			} else {
				env.vars["recv"] = tv
			}
		}
		for _, fv := range fn.FreeVars {
			tv := s.freshValue(cur, "fv:"+fv.Name(), fv.Type())
			fr.vals[fv] = tv
			env.vars[fv.Name()] = tv
		}
		// parameters the body assigns: inside the body (loop invariants, call-site
		// assertions) their name means the current value; in requires / ensures / let
		// it means the entry value
		env.mut = map[string]bool{}
		for _, b := range fn.Blocks {
			for _, in := range b.Instrs {
				if ph, ok := in.(*ssa.Phi); ok {
					for _, p := range fn.Params {
						if ph.Comment == p.Name() {
							env.mut[p.Name()] = true
						}
					}
				}
			}
		}
		for _, l := range fc.Lets {
			env.vars[l.Name] = s.eval(env, l.E)
		}
		for _, u := range fc.Uses {
			s.useAxiom(u)
		}
		// witnesses: entry-state terms evaluated in the model of a failed obligation
		var witNames, witTerms []string
		for _, w := range fc.Witness {
			v := s.eval(env, w.E)
			witNames = append(witNames, w.Name)
			// always a named definition (define() returns short terms unchanged)
			s.nfresh++
			n := q("wit:" + w.Name + "@" + strconv.Itoa(s.nfresh))
			s.emit(fmt.Sprintf("(define-fun %s () %s %s)", n, v.S, v.T))
			witTerms = append(witTerms, n)
		}
		_, _ = witNames, witTerms
		var reqs []string
		for _, r := range fc.Requires {
			t := s.evalBool(env, r.E)
			reqs = append(reqs, t)
			s.assume(cur, t)
		}
		// vacuity guard: the preconditions (with the type invariants) must be satisfiable
		s.addObl(&Obligation{Name: shortKey(res.Key) + "#cover:requires", Props: fc.Props, Kind: "cover", Label: "requires", Goal: "true", Cover: true})
		fr.env0 = env
		rets, out := fr.run(cur)
		if s.Err != nil {
			res.Err = s.Err
			return res
		}
		// frame conditions: calls the function itself must not contain (closures included)
		for _, nc := range fc.NoCalls {
			found := ""
			var scan func(f *ssa.Function)
			scan = func(f *ssa.Function) {
				for _, b := range f.Blocks {
					for _, in := range b.Instrs {
						ci, ok := in.(ssa.CallInstruction)
						if !ok {
							continue
						}
						k := s.calleeKeyOf(ci.Common())
						if k == nc.Callee || strings.HasSuffix(k, "."+nc.Callee) || strings.HasSuffix(k, "/"+nc.Callee) {
							found = P.Fset.Position(in.Pos()).String()
						}
					}
				}
				for _, a := range f.AnonFuncs {
					scan(a)
				}
			}
			scan(fn)
			goal := "true"
			src := nc.C.Src
			if found != "" {
				goal = "false"
				src += " [called at " + found + "]"
			}
			s.addObl(&Obligation{Name: shortKey(res.Key) + "#nocall:" + nc.Callee + ":" + nc.C.Label, Props: qualProps(fc, nc.C), Kind: "frame", Label: nc.C.Label, Goal: goal, Src: src})
		}
		// every call-site assertion must have matched at least one call (vacuity guard)
		for _, at := range fc.Ats {
			if !fr.atHit[at.C.Label] {
				s.addObl(&Obligation{Name: shortKey(res.Key) + "#at:" + at.Callee + ":" + at.C.Label + ":no-matching-call", Props: qualProps(fc, at.C), Kind: "call-site-assert", Label: at.C.Label, Goal: "false", Src: "call to " + at.Callee + " expected in this function: " + at.C.Src})
			}
		}
		post := env.child()
		post.st = out
		post.old = s.entry
		post.local = func(name string) (TV, bool) { return fr.singleDefLocal(name, out) }
		bindResults(post, fn.Signature, rets)
		// ghost updates at exit
		for _, g := range fc.Sets {
			gv, ok := P.Specs.Ghost[g.Name]
			if !ok {
				s.fail("sets: unknown ghost variable %s", g.Name)
				break
			}
			so, _ := P.specType(gv.Sort)
			v := s.eval(post, g.E)
			s.getMap(out, "H:"+g.Name, so)
			nv := s.define("H:"+g.Name, so, v.T)
			defer func(name, val string) {}(g.Name, nv)
			post.vars["$set:"+g.Name] = TV{T: nv, S: so}
		}
		for _, g := range fc.Sets {
			out.Maps["H:"+g.Name] = post.vars["$set:"+g.Name].T
		}
		for _, e := range fc.Ensures {
			if e.Implicit {
				continue
			}
			prevErr := s.Err
			g := s.evalBool(post, e.E)
			if prevErr == nil && s.Err != nil && strings.Contains(s.Err.Error(), "unknown identifier") {
				// the postcondition names a variable the function does not have (any more): it
				// cannot be established - reported as this clause failing, like a call-site
				// clause in the same situation, instead of leaving the whole function undecided
				src := e.Src + "   [" + s.Err.Error() + ": no such variable in the function]"
				s.Err = nil
				s.addObl(&Obligation{Name: shortKey(res.Key) + "#ensures:" + e.Label, Props: qualProps(fc, e), Kind: "ensures", Label: e.Label, Goal: "false", Src: src})
				continue
			}
			s.addObl(&Obligation{Name: shortKey(res.Key) + "#ensures:" + e.Label, Props: qualProps(fc, e), Kind: "ensures", Label: e.Label, Goal: fmt.Sprintf("(=> %s %s)", out.Guard, g), Src: e.Src})
			// accept-path cover for implications
			if b, ok := e.E.(EBin); ok && b.Op == "==>" {
				a := s.evalBool(post, b.X)
				s.addObl(&Obligation{Name: shortKey(res.Key) + "#cover:" + e.Label, Props: qualProps(fc, e), Kind: "cover", Label: e.Label, Goal: mkAnd([]string{out.Guard, a}), Cover: true, Src: e.Src})
			}
		}
		if s.Err != nil {
			res.Err = s.Err
			return res
		}
		if !s.needRerun {
			break
		}
	}
	for _, o := range s.Obls {
		o.lines = s.lines[:o.Prefix]
	}
	res.Obls = s.Obls
	// attach the witnesses (their definitions precede every obligation of the function)
	{
		var names, terms []string
		for _, l := range s.lines {
			_ = l
		}
		for _, w := range fc.Witness {
			names = append(names, w.Name)
		}
		for _, l := range s.lines {
			if strings.HasPrefix(l, "(define-fun |wit:") {
				t := l[len("(define-fun "):]
				terms = append(terms, t[:strings.Index(t[1:], "|")+2])
			}
		}
		for _, o := range s.Obls {
			if len(terms) == len(names) && !o.Cover {
				o.WitNames, o.WitTerms = names, terms
			}
		}
	}
	return res
}

// LemmaObligations builds the obligations of the lemmas of a property.
func (P *Program) LemmaObligations(prop string) ([]*Obligation, error) {
	var out []*Obligation
	for _, lm := range P.Specs.Lemmas {
		if lm.Prop != prop {
			continue
		}
		s := NewSym(P, nil, nil)
		s.entry = &State{Guard: "true", Maps: map[string]string{}}
		env := s.newEnv(nil)
		env.st, env.old = s.entry, s.entry
		for _, r := range lm.Reveals {
			s.revealed[r] = true
		}
		for _, u := range lm.Uses {
			s.useAxiomNoTop(u)
		}
		g := s.evalBool(env, lm.E)
		if s.Err != nil {
			return nil, fmt.Errorf("lemma %s: %v", lm.Name, s.Err)
		}
		o := &Obligation{Name: "lemma:" + lm.Name, Props: []string{prop}, Kind: "lemma", Label: lm.Name, Goal: g, Src: lm.Src, Func: "lemma:" + lm.Name}
		o.lines = append([]string{}, s.lines...)
		out = append(out, o)
	}
	return out, nil
}

func (s *Sym) useAxiomNoTop(name string) {
	ax, ok := s.P.Specs.Axioms[name]
	if !ok {
		s.fail("unknown axiom %s", name)
		return
	}
	if s.axiomsUsed[name] {
		return
	}
	s.axiomsUsed[name] = true
	env := s.newEnv(nil)
	env.st, env.old = s.entry, s.entry
	t := s.evalBool(env, ax.E)
	s.emit("(assert " + t + ")")
}

// Query renders the SMT-LIB text of an obligation.
func (o *Obligation) Query() string {
	var sb strings.Builder
	for _, l := range o.lines {
		sb.WriteString(l)
		sb.WriteByte('\n')
	}
	for _, l := range o.Extra {
		sb.WriteString(l)
		sb.WriteByte('\n')
	}
	if o.Cover {
		sb.WriteString("(assert " + o.Goal + ")\n")
	} else {
		sb.WriteString("(assert (not " + o.Goal + "))\n")
	}
	sb.WriteString("(check-sat)\n")
	if len(o.WitTerms) > 0 && !o.Cover {
		sb.WriteString("(get-value (" + strings.Join(o.WitTerms, " ") + "))\n")
	}
	return sb.String()
}
