package vc

import (
	"fmt"
	"strings"

	"golang.org/x/tools/go/ssa"
)

// Loop frames for ghost arrays indexed by object references (e.g. bigval).
//
// A loop cut havocs every map the body may modify. For a ghost array whose only
// modifications in the body are calls of trusted functions that update it at ONE index
// (`g == upd(old(g), recv|result|$k, ...)` as an unconditional conjunct of the trusted
// contract), the cells of all other objects that existed before the loop keep their value:
// the index of each such call is either a value defined outside the loop (excluded from
// the frame) or an object the body itself allocated (younger than the loop entry).
// Without this, an object that the loop never touches (a hoisted constant, say) would
// lose its value at the loop although no code writes it.

func conjunctsOf(e Expr, out *[]Expr) {
	if b, ok := e.(EBin); ok && b.Op == "&&" {
		conjunctsOf(b.X, out)
		conjunctsOf(b.Y, out)
		return
	}
	*out = append(*out, e)
}

// modIndexOf: the parameter at which the trusted function updates ghost array g, and
// whether its result is a fresh object.
func modIndexOf(fc *FuncContract, g string) (idx string, freshResult bool, ok bool) {
	if fc == nil || !fc.Trusted {
		return "", false, false
	}
	for _, c := range fc.Ensures {
		var cs []Expr
		conjunctsOf(c.E, &cs)
		for _, e := range cs {
			if call, isCall := e.(ECall); isCall && call.Fn == "isfresh" && len(call.Args) == 1 {
				if id, isId := call.Args[0].(EIdent); isId && (id.Name == "result" || id.Name == "result0") {
					freshResult = true
				}
			}
			b, isBin := e.(EBin)
			if !isBin || b.Op != "==" {
				continue
			}
			id, isId := b.X.(EIdent)
			if !isId || id.Name != g {
				continue
			}
			call, isCall := b.Y.(ECall)
			if !isCall || call.Fn != "upd" || len(call.Args) != 3 {
				continue
			}
			o, isOld := call.Args[0].(EOld)
			if !isOld {
				continue
			}
			if oid, isId := o.X.(EIdent); !isId || oid.Name != g {
				continue
			}
			k, isId := call.Args[1].(EIdent)
			if !isId {
				continue
			}
			if k.Name == "recv" || k.Name == "result" || k.Name == "result0" || strings.HasPrefix(k.Name, "$") {
				idx, ok = k.Name, true
			}
		}
	}
	return idx, freshResult, ok
}

// loopGhostFrames: for the ghost arrays among the loop's modified maps, the index terms
// (defined outside the loop) that the body may write; absent from the result if the
// modifications of an array cannot be attributed to single indices.
func (fr *frame) loopGhostFrames(li *loopInfo, st *State) map[string][]string {
	s := fr.s
	out := map[string][]string{}
	for _, m := range li.mods {
		if !strings.HasPrefix(m, "H:") {
			continue
		}
		g := m[2:]
		gv, isGhost := s.P.Specs.Ghost[g]
		if !isGhost {
			continue
		}
		so, _ := s.P.specType(gv.Sort)
		if !strings.HasPrefix(so, "(Array Int ") {
			continue
		}
		keys := []string{}
		ok := true
	scan:
		for b := range li.body {
			for _, ins := range b.Instrs {
				mods := map[string]bool{}
				s.P.instrMods(ins, mods, true)
				if !mods[m] {
					continue
				}
				call, isCall := ins.(*ssa.Call)
				if !isCall {
					ok = false
					break scan
				}
				cc := call.Common()
				callee := cc.StaticCallee()
				if callee == nil || cc.IsInvoke() {
					ok = false
					break scan
				}
				fc := s.P.contractFor(FuncKey(callee))
				idx, _, has := modIndexOf(fc, g)
				if !has {
					ok = false
					break scan
				}
				var v ssa.Value
				hasRecv := callee.Signature.Recv() != nil
				switch {
				case idx == "recv":
					if !hasRecv || len(cc.Args) == 0 {
						ok = false
						break scan
					}
					v = cc.Args[0]
				case idx == "result" || idx == "result0":
					v = call
				default:
					n := 0
					fmt.Sscanf(idx, "$%d", &n)
					if hasRecv {
						n++
					}
					if n >= len(cc.Args) {
						ok = false
						break scan
					}
					v = cc.Args[n]
				}
				switch fr.loopValueClass(li, v) {
				case "outside":
					if _, computed := fr.vals[v]; !computed {
						if _, isC := v.(*ssa.Const); !isC {
							ok = false
							break scan
						}
					}
					keys = append(keys, fr.val(v, st).T)
				case "fresh":
				default:
					ok = false
					break scan
				}
			}
		}
		if ok {
			out[m] = keys
		}
	}
	return out
}

// loopValueClass: "outside" for a value defined before the loop, "fresh" for an object
// the loop body allocates itself, "" otherwise.
func (fr *frame) loopValueClass(li *loopInfo, v ssa.Value) string {
	switch x := v.(type) {
	case *ssa.Parameter, *ssa.FreeVar, *ssa.Const, *ssa.Global:
		return "outside"
	case *ssa.Alloc:
		if !li.body[x.Block()] {
			return "outside"
		}
		if x.Heap {
			return "fresh"
		}
		return ""
	case *ssa.Call:
		if !li.body[x.Block()] {
			return "outside"
		}
		if callee := x.Common().StaticCallee(); callee != nil {
			fc := fr.s.P.contractFor(FuncKey(callee))
			if fc != nil && fc.Trusted {
				// the result of a trusted allocator, or of a trusted function returning its receiver
				for _, g := range fc.ModGhost {
					if _, fresh, _ := modIndexOf(fc, g); fresh {
						return "fresh"
					}
				}
			}
		}
		return ""
	case ssa.Instruction:
		if !li.body[x.Block()] {
			return "outside"
		}
	}
	return ""
}
