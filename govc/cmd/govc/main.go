package main

import (
	"os/exec"
	"crypto/sha256"
	"encoding/json"
	"flag"
	"fmt"
	"os"
	"path/filepath"
	"sort"
	"strconv"
	"strings"
	"sync"
	"time"

	"govc/internal/vc"
)

type KnownFinding struct {
	Property   string `json:"property"`
	Obligation string `json:"obligation"`
	Status     string `json:"status"` // open | fixed
	What       string `json:"what"`
	Witness    string `json:"witness,omitempty"`
	Commit     string `json:"commit,omitempty"`
}

type OblReport struct {
	Name    string            `json:"name"`
	Kind    string            `json:"kind"`
	Status  string            `json:"status"`
	Solver  string            `json:"solver,omitempty"`
	Seconds float64           `json:"seconds"`
	Clause  string            `json:"clause,omitempty"`
	All     map[string]string `json:"all_solvers,omitempty"`
}

func findContractFiles(repo string) ([]string, error) {
	var files []string
	err := filepath.Walk(repo, func(p string, info os.FileInfo, err error) error {
		if err != nil {
			return nil
		}
		if info.IsDir() {
			n := info.Name()
			if n == ".git" || n == "node_modules" || n == "testdata" {
				return filepath.SkipDir
			}
			return nil
		}
		if strings.HasSuffix(info.Name(), "_verif.go") && strings.HasPrefix(info.Name(), "zz_contracts") {
			files = append(files, p)
		}
		return nil
	})
	sort.Strings(files)
	return files, err
}

func main() {
	if len(os.Args) < 2 {
		fmt.Fprintln(os.Stderr, "usage: govc verify|dump ...")
		os.Exit(2)
	}
	switch os.Args[1] {
	case "verify":
		os.Exit(verify(os.Args[2:]))
	case "names":
		os.Exit(recordNames(os.Args[2:]))
	default:
		fmt.Fprintln(os.Stderr, "unknown command")
		os.Exit(2)
	}
}

// recordNames writes the parameter / result / local names (and the static callees) of
// every repository function that has a contract: the names the contracts refer to.
// With --check it only compares the file with the current tree.
func recordNames(argv []string) int {
	fs := flag.NewFlagSet("names", flag.ExitOnError)
	repo := fs.String("repo", "/repo", "repository")
	verif := fs.String("verif", "/verif", "verif dir")
	check := fs.Bool("check", false, "compare only")
	fs.Parse(argv)
	specs := vc.NewSpecs()
	if err := specs.LoadDir(filepath.Join(*verif, "contracts", "trusted")); err != nil {
		fmt.Println(err)
		return 2
	}
	if err := specs.LoadDir(filepath.Join(*verif, "contracts")); err != nil {
		fmt.Println(err)
		return 2
	}
	files, _ := findContractFiles(*repo)
	pkgSet := map[string]bool{}
	for _, f := range files {
		rel, _ := filepath.Rel(*repo, filepath.Dir(f))
		pkgPath := vc.ModulePath
		if rel != "." {
			pkgPath += "/" + filepath.ToSlash(rel)
		}
		if err := specs.LoadFile(f, pkgPath); err != nil {
			fmt.Println(err)
			return 2
		}
		pkgSet[pkgPath] = true
	}
	var patterns []string
	for p := range pkgSet {
		patterns = append(patterns, p)
	}
	sort.Strings(patterns)
	P, err := vc.Load(*repo, patterns, nil)
	if err != nil {
		fmt.Println(err)
		return 2
	}
	out := map[string]*vc.FuncNames{}
	for k, fc := range specs.Funcs {
		if fc.IsIface {
			continue
		}
		fn := P.ByKey[k]
		if fn == nil || fn.Blocks == nil || fn.Pkg == nil || !vc.IsRepoPath(fn.Pkg.Pkg.Path()) {
			continue
		}
		out[k] = P.CurrentNames(fn)
	}
	b, _ := json.MarshalIndent(out, "", " ")
	b = append(b, '\n')
	path := filepath.Join(*verif, "contracts", "names.json")
	if *check {
		old, _ := os.ReadFile(path)
		if string(old) != string(b) {
			fmt.Println("names.json differs from the current tree")
			return 1
		}
		fmt.Printf("names.json up to date (%d functions)\n", len(out))
		return 0
	}
	if err := os.WriteFile(path, b, 0644); err != nil {
		fmt.Println(err)
		return 2
	}
	fmt.Printf("recorded names of %d functions in %s\n", len(out), path)
	return 0
}

// replayExtraOverlay: source replacements of a selftest run (--overlay), handed on to replays.
var replayExtraOverlay map[string]string

func verify(argv []string) int {
	fs := flag.NewFlagSet("verify", flag.ExitOnError)
	prop := fs.String("property", "", "property id")
	tier := fs.String("tier", "quick", "quick|thorough")
	repo := fs.String("repo", "/repo", "repository")
	verif := fs.String("verif", "/verif", "verif dir")
	only := fs.String("only", "", "only functions whose key contains this")
	dump := fs.Bool("dump", false, "print obligations")
	noEvidence := fs.Bool("no-evidence", false, "do not write the evidence file")
	overlayFile := fs.String("overlay", "", "JSON file {path: replacement-file} applied as a packages overlay (selftests)")
	expectFail := fs.String("expect-fail", "", "selftest mode: comma separated obligation substrings expected to fail")
	jobs := fs.Int("j", 6, "concurrent obligations")
	smtDir := fs.String("smtdir", "", "directory for SMT files (default <verif>/out/smt/<property>)")
	fs.Parse(argv)
	start := time.Now()
	seed := 0
	if v := os.Getenv("VERIF_SEED"); v != "" {
		seed, _ = strconv.Atoi(v)
	}
	if v := os.Getenv("VERIF_TIER"); v != "" && *tier == "" {
		*tier = v
	}
	timeout := 40 // seconds per obligation (the slowest claimed obligation takes about 10 s here)
	if *tier == "thorough" {
		timeout = 120
	}
	undecided := func(format string, a ...interface{}) int {
		fmt.Printf("UNDECIDED property=%s %s\n", *prop, fmt.Sprintf(format, a...))
		return 2
	}
	// ---- contracts ----
	specs := vc.NewSpecs()
	if err := specs.LoadDir(filepath.Join(*verif, "contracts", "trusted")); err != nil {
		return undecided("trusted contracts: %v", err)
	}
	if err := specs.LoadDir(filepath.Join(*verif, "contracts")); err != nil {
		return undecided("shared contracts: %v", err)
	}
	files, _ := findContractFiles(*repo)
	for _, f := range files {
		rel, _ := filepath.Rel(*repo, filepath.Dir(f))
		pkgPath := vc.ModulePath
		if rel != "." {
			pkgPath += "/" + filepath.ToSlash(rel)
		}
		if err := specs.LoadFile(f, pkgPath); err != nil {
			return undecided("contract file: %v", err)
		}
	}
	// functions of this property
	var keys []string
	pkgSet := map[string]bool{}
	for k, fc := range specs.Funcs {
		if fc.Trusted || fc.IsIface || fc.NoVerify {
			continue
		}
		has := false
		for _, p := range fc.Props {
			if p == *prop {
				has = true
			}
		}
		if !has {
			for _, c := range append(append([]vc.Clause{}, fc.Ensures...), fc.Requires...) {
				if c.Prop == *prop {
					has = true
				}
			}
			for _, at := range append(append([]vc.AtClause{}, fc.Ats...), fc.NoCalls...) {
				if at.C.Prop == *prop {
					has = true
				}
			}
			for _, cs := range fc.Loops {
				for _, c := range cs {
					if c.Prop == *prop {
						has = true
					}
				}
			}
		}
		if !has {
			continue
		}
		if *only != "" && !strings.Contains(k, *only) {
			continue
		}
		keys = append(keys, k)
		// package path = key up to the first '.' after the last '/'
		slash := strings.LastIndex(k, "/")
		dot := strings.Index(k[slash+1:], ".")
		pkgSet[k[:slash+1+dot]] = true
	}
	sort.Strings(keys)
	if len(keys) == 0 {
		return undecided("no function under contract for this property")
	}
	var patterns []string
	for p := range pkgSet {
		patterns = append(patterns, p)
	}
	sort.Strings(patterns)
	var overlay map[string][]byte
	if *overlayFile != "" {
		b, err := os.ReadFile(*overlayFile)
		if err != nil {
			return undecided("overlay: %v", err)
		}
		var m map[string]string
		if err := json.Unmarshal(b, &m); err != nil {
			return undecided("overlay: %v", err)
		}
		overlay = map[string][]byte{}
		replayExtraOverlay = m
		for k, v := range m {
			c, err := os.ReadFile(v)
			if err != nil {
				return undecided("overlay: %v", err)
			}
			overlay[k] = c
		}
	}
	P, err := vc.Load(*repo, patterns, overlay)
	if err != nil {
		return undecided("load: %v", err)
	}
	P.Specs = specs
	P.ComputeMods()
	// names the contracts were written against (tolerates renamed parameters / locals)
	if err := P.LoadRecordedNames(filepath.Join(*verif, "contracts", "names.json")); err != nil && !os.IsNotExist(err) {
		return undecided("recorded names: %v", err)
	}
	loadS := time.Since(start).Seconds()
	// ---- obligations ----
	var obls []*vc.Obligation
	type fnInfo struct {
		Key, File, Hash string
		N          int
	}
	var fns []fnInfo
	notes := map[string]bool{}
	trusted := map[string]bool{}
	assumed := map[string]bool{}
	opaque := map[string]bool{}
	inlined := map[string]bool{}
	contracts := map[string]bool{}
	for _, k := range keys {
		fn := P.ByKey[k]
		if fn == nil {
			return undecided("function %s under contract not found in the source (renamed or removed?)", k)
		}
		r := P.VerifyFunc(fn, specs.Funcs[k])
		if r.Err != nil {
			return undecided("%s: %v", k, r.Err)
		}
		h := sha256.Sum256([]byte(P.SourceOf(fn)))
		fns = append(fns, fnInfo{k, r.File, fmt.Sprintf("%x", h[:8]), len(r.Obls)})
		for _, o := range r.Obls {
			// keep obligations reporting to this property
			keep := len(o.Props) == 0
			for _, p := range o.Props {
				if p == *prop {
					keep = true
				}
			}
			if keep {
				obls = append(obls, o)
			}
		}
		for n := range r.Sym.Notes {
			notes[n] = true
		}
		for n := range r.Sym.Trusted {
			trusted[n] = true
		}
		for n := range r.Sym.Assumed {
			assumed[n] = true
		}
		for n := range r.Sym.Opaque {
			opaque[n] = true
		}
		for n := range r.Sym.Inlined {
			inlined[n] = true
		}
		for n := range r.Sym.Contracts {
			contracts[n] = true
		}
	}
	lem, err := P.LemmaObligations(*prop)
	if err != nil {
		return undecided("%v", err)
	}
	obls = append(obls, lem...)
	if *dump {
		for _, o := range obls {
			fmt.Printf("== %s [%s]\n%s\n", o.Name, o.Kind, o.Goal)
		}
	}
	// ---- discharge ----
	outDir := filepath.Join(*verif, "out", "smt", *prop)
	if *smtDir != "" {
		outDir = *smtDir
	}
	os.RemoveAll(outDir)
	results := make([]*vc.SolveResult, len(obls))
	var wg sync.WaitGroup
	sem := make(chan struct{}, *jobs)
	for i, o := range obls {
		wg.Add(1)
		go func(i int, o *vc.Obligation) {
			defer wg.Done()
			sem <- struct{}{}
			defer func() { <-sem }()
			t := timeout
			if o.Cover {
				t = 2
			}
			results[i] = vc.Solve(o, outDir, t, seed, *tier == "thorough" && !o.Cover)
		}(i, o)
	}
	wg.Wait()
	// ---- report ----
	var known []KnownFinding
	if b, err := os.ReadFile(filepath.Join(*verif, "known_findings.json")); err == nil {
		json.Unmarshal(b, &known)
	}
	isKnown := func(name string) *KnownFinding {
		for i := range known {
			if known[i].Property == *prop && known[i].Status == "open" && known[i].Obligation == name {
				return &known[i]
			}
		}
		return nil
	}
	var reports []OblReport
	nObl, nDis, nCover, nVac := 0, 0, 0, 0
	violations := 0
	var knownHit []string
	var solverTime float64
	backends := map[string]int{}
	failed := map[string]bool{}
	replayDir := filepath.Join(*verif, "out", "replay", *prop)
	if *smtDir != "" {
		replayDir = filepath.Join(*smtDir, "replay")
	}
	os.RemoveAll(replayDir)
	for i, o := range obls {
		r := results[i]
		rep := OblReport{Name: o.Name, Kind: o.Kind, Status: r.Status, Solver: r.Solver, Seconds: r.Seconds, Clause: o.Src, All: r.All}
		solverTime += r.Seconds
		if o.Cover {
			nCover++
			if r.Status == "unsat" {
				nVac++
				rep.Status = "VACUOUS"
				fmt.Printf("WARNING vacuous: %s (the guarded path is unreachable under the contract)\n", o.Name)
			} else {
				rep.Status = "covered(" + r.Status + ")"
			}
			reports = append(reports, rep)
			continue
		}
		if kf := isKnown(o.Name); kf != nil {
			if r.Status == "unsat" {
				fmt.Printf("STALE-FINDING: property=%s %s now discharges (%s)\n", *prop, o.Name, kf.What)
				rep.Status = "known-finding-now-passing"
			} else {
				fmt.Printf("KNOWN-FINDING: property=%s %s: %s\n", *prop, o.Name, kf.What)
				knownHit = append(knownHit, o.Name+": "+kf.What)
				rep.Status = "known-finding(" + r.Status + ")"
			}
			reports = append(reports, rep)
			continue
		}
		nObl++
		if r.Status == "unsat" {
			nDis++
			backends[r.Solver]++
			reports = append(reports, rep)
			continue
		}
		// failed obligation
		failed[o.Name] = true
		violations++
		os.MkdirAll(replayDir, 0o755)
		rp := filepath.Join(replayDir, sanitize(o.Name)+".json")
		rj := map[string]interface{}{
			"property": *prop, "obligation": o.Name, "kind": o.Kind, "clause": o.Src, "function": o.Func,
			"solver_status": r.Status, "solver": r.Solver, "all_solvers": r.All, "solver_output": r.Output, "smt_file": r.File,
			"replayed": false,
			"note":     "obligation discharged on the unchanged tree and fails on this tree",
		}
		reproduced := false
		modelOut := r.Output
		haveModel := r.Status == "sat"
		if !haveModel && len(o.WitNames) > 0 && findReplayTemplate(*verif, o.Name+" "+o.Func) != nil {
			// no model (quantified goal): look for a candidate in the quantifier-free
			// weakening of the query; it only counts if it reproduces on the real code
			if out, ok := groundCandidate(r.File); ok {
				modelOut, haveModel = out, true
				rj["candidate_from"] = "model of the quantifier-free weakening of the query (validated only by replay)"
			}
		}
		if haveModel && len(o.WitNames) > 0 {
			wit := parseWitness(modelOut, o.WitNames)
			rj["witness"] = wit
			if tpl := findReplayTemplate(*verif, o.Name+" "+o.Func); tpl != nil && len(wit) > 0 {
				out, ok := runReplay(*verif, *repo, tpl, wit)
				rj["replay_template"] = tpl
				rj["replay_output"] = truncate(out, 6000)
				rj["replayed"] = true
				rj["reproduced_on_real_code"] = ok
				reproduced = ok
			}
		}
		if !reproduced {
			if tpl := findReplayTemplate(*verif, o.Name+" "+o.Func); tpl != nil && tpl.Scenario {
				out, ok := runReplay(*verif, *repo, tpl, map[string]interface{}{})
				rj["replay_template"] = tpl
				rj["replay_output"] = truncate(out, 6000)
				rj["replayed"] = true
				rj["reproduced_on_real_code"] = ok
				rj["candidate_from"] = "no solver model for this obligation; fixed scenario corpus of the function run on the real code"
				reproduced = ok
			}
		}
		b, _ := json.MarshalIndent(rj, "", " ")
		os.WriteFile(rp, b, 0o644)
		fmt.Printf("FAILED obligation %s status=%s solvers=%v\n", o.Name, r.Status, r.All)
		if reproduced {
			fmt.Printf("VIOLATION property=%s replay=%s obligation=%s counterexample-replayed-on-real-code\n", *prop, rp, o.Name)
		} else {
			fmt.Printf("VIOLATION property=%s replay=%s obligation=%s no-failing-input-found\n", *prop, rp, o.Name)
		}
		reports = append(reports, rep)
	}
	wall := time.Since(start).Seconds()
	if *expectFail != "" {
		ok := true
		for _, want := range strings.Split(*expectFail, ",") {
			hit := false
			for n := range failed {
				if strings.Contains(n, want) {
					hit = true
				}
			}
			if !hit {
				fmt.Printf("SELFTEST-MISS expected a failing obligation matching %q\n", want)
				ok = false
			}
		}
		if ok {
			fmt.Println("SELFTEST-OK")
			return 0
		}
		return 1
	}
	// thorough tier: bounded stand-ins registered for this property (real code, finite bound)
	var boundedReports []interface{}
	if *tier == "thorough" && *expectFail == "" && *only == "" {
		for _, tpl := range boundedTemplates(*verif, *prop) {
			t0 := time.Now()
			out, repro := runReplay(*verif, *repo, &tpl, map[string]interface{}{})
			passed := !repro && strings.Contains(out, "\nok ") || (!repro && strings.HasPrefix(out, "ok "))
			var lines []string
			for _, ln := range strings.Split(out, "\n") {
				if strings.Contains(ln, "BOUNDED:") || strings.Contains(ln, "REPRODUCED") {
					lines = append(lines, strings.TrimSpace(ln))
				}
			}
			br := map[string]interface{}{"kind": "bounded stand-in (NOT a proof)", "test": tpl.Run, "package": tpl.Pkg, "bound": tpl.Bound, "passed": passed, "wall_s": time.Since(t0).Seconds(), "lines": lines}
			boundedReports = append(boundedReports, br)
			if repro {
				violations++
				os.MkdirAll(replayDir, 0o755)
				rp := filepath.Join(replayDir, "bounded_"+sanitize(tpl.Run)+".json")
				rj := map[string]interface{}{"property": *prop, "obligation": "bounded:" + tpl.Run, "bound": tpl.Bound, "replay_template": tpl, "replay_output": truncate(out, 8000), "replayed": true, "reproduced_on_real_code": true}
				b, _ := json.MarshalIndent(rj, "", " ")
				os.WriteFile(rp, b, 0o644)
				fmt.Printf("VIOLATION property=%s replay=%s obligation=bounded:%s counterexample-replayed-on-real-code\n", *prop, rp, tpl.Run)
			} else if !passed {
				fmt.Printf("NOTE bounded stand-in %s did not run to completion (not counted): %s\n", tpl.Run, truncate(out, 300))
			}
		}
	}
	if !*noEvidence {
		var tb []string
		tb = append(tb, "go/parser + go/types + golang.org/x/tools/go/ssa v0.29.0 (source to SSA)", "govc translator and memory model (/verif/govc)", "SMT solvers: z3 5.1.0, z3 4.8.12, cvc5 1.0.3", "termination not proved; partial correctness (panicking paths do not reach postconditions)", "machine integers treated as mathematical integers; float64 as reals")
		for _, m := range []struct {
			pfx string
			set map[string]bool
		}{{"trusted contract: ", trusted}, {"external call assumed effect-free on modelled state: ", assumed}, {"opaque repo call (results unconstrained, inferred modifies-set havocked): ", opaque}, {"abstraction: ", notes}} {
			var ks []string
			for k := range m.set {
				ks = append(ks, k)
			}
			sort.Strings(ks)
			for _, k := range ks {
				tb = append(tb, m.pfx+k)
			}
		}
		var inl, con []string
		for k := range inlined {
			inl = append(inl, k)
		}
		for k := range contracts {
			con = append(con, k)
		}
		sort.Strings(inl)
		sort.Strings(con)
		var samples []interface{}
		for i, o := range obls {
			if len(samples) >= 4 {
				break
			}
			if o.Cover {
				continue
			}
			samples = append(samples, map[string]interface{}{"obligation": o.Name, "clause": o.Src, "status": results[i].Status, "solver": results[i].Solver, "smt_goal": truncate(o.Goal, 400)})
		}
		explanation := fmt.Sprintf("Contracts (//@ blocks in zz_contracts_verif.go files in /repo, build tag verif) on %d functions; verification conditions generated from go/ssa of /repo's working tree on this run; every obligation raced on three SMT solvers. %d obligations, %d discharged; %d vacuity covers (%d vacuous).", len(fns), nObl, nDis, nCover, nVac)
		if len(knownHit) > 0 {
			explanation += fmt.Sprintf(" The property is NOT proved for %d known-finding obligation(s), listed under known_findings.", len(knownHit))
		}
		ev := map[string]interface{}{
			"property_id": *prop, "tier": *tier, "seed": seed, "level": "proof",
			"coverage": map[string]interface{}{
				"obligations": nObl, "discharged": nDis,
				"checker_cmd":  "govc verify --property " + *prop + " --tier " + *tier + "  (per obligation: z3-new / z3 / cvc5 on out/smt/" + *prop + "/*.smt2)",
				"trusted_base": tb, "samples": samples, "explanation": explanation,
				"functions_under_contract": fns, "per_obligation": reports, "backends": backends,
				"solver_time_s": solverTime, "load_time_s": loadS, "covers": nCover, "vacuous": nVac,
				"callee_contracts_used": con, "inlined_callees": inl, "known_findings": knownHit,
				"contract_files": specs.Files, "bounded_stand_ins": boundedReports,
			},
			"assumptions": tb, "wall_s": wall, "violations": violations,
		}
		os.MkdirAll(filepath.Join(*verif, "evidence"), 0o755)
		b, _ := json.MarshalIndent(ev, "", " ")
		os.WriteFile(filepath.Join(*verif, "evidence", *prop+".json"), b, 0o644)
	}
	fmt.Printf("property=%s functions=%d obligations=%d discharged=%d covers=%d vacuous=%d known=%d wall=%.1fs (load %.1fs)\n", *prop, len(fns), nObl, nDis, nCover, nVac, len(knownHit), wall, loadS)
	if violations > 0 {
		return 1
	}
	return 0
}

func sanitize(name string) string {
	r := strings.NewReplacer("/", "_", ":", "_", "#", "-", "*", "", "(", "", ")", "", " ", "_", "$", "_")
	return r.Replace(name)
}

func truncate(s string, n int) string {
	if len(s) > n {
		return s[:n] + "..."
	}
	return s
}

// ---------------------------------------------------------------------------
// counterexample replay

type replayTemplate struct {
	Match string `json:"match"` // substring of the function key
	Pkg   string `json:"pkg"`   // package directory relative to the repository
	File  string `json:"file"`  // in-package test file (under /verif/replay), injected with -overlay
	Run   string `json:"run"`   // go test -run regex
	// Scenario templates take no witness: they run a fixed corpus of concrete inputs
	// (one per input class the function's contract distinguishes) on the real code.
	Scenario bool `json:"scenario,omitempty"`
	// Bounded stand-ins run in the thorough tier only: a finite exploration of the
	// real code where no contract within reach decides the statement. Never counted
	// as proved; reported separately in the evidence.
	Bounded  bool   `json:"bounded,omitempty"`
	Property string `json:"property,omitempty"`
	Bound    string `json:"bound,omitempty"`
}

func boundedTemplates(verif, prop string) []replayTemplate {
	b, err := os.ReadFile(filepath.Join(verif, "replay", "registry.json"))
	if err != nil {
		return nil
	}
	var ts, out []replayTemplate
	if json.Unmarshal(b, &ts) != nil {
		return nil
	}
	for _, t := range ts {
		if t.Bounded && t.Property == prop {
			out = append(out, t)
		}
	}
	return out
}

func findReplayTemplate(verif, fn string) *replayTemplate {
	b, err := os.ReadFile(filepath.Join(verif, "replay", "registry.json"))
	if err != nil {
		return nil
	}
	var ts []replayTemplate
	if json.Unmarshal(b, &ts) != nil {
		return nil
	}
	// entries naming one obligation (<function>#<kind>:<label>) before entries for a function
	for _, specific := range []bool{true, false} {
		for i := range ts {
			if ts[i].Bounded || strings.Contains(ts[i].Match, "#") != specific {
				continue
			}
			if strings.Contains(fn, ts[i].Match) {
				return &ts[i]
			}
		}
	}
	return nil
}

// parseWitness reads the (get-value ...) answer that follows "sat".
func parseWitness(out string, names []string) map[string]interface{} {
	res := map[string]interface{}{}
	i := strings.Index(out, "((")
	if i < 0 {
		return res
	}
	// split the top-level list into (term value) pairs
	depth := 0
	start := -1
	var pairs []string
	inq := false
	for j := i; j < len(out); j++ {
		c := out[j]
		if c == '|' {
			inq = !inq
		}
		if inq {
			continue
		}
		if c == '(' {
			depth++
			if depth == 2 {
				start = j
			}
		} else if c == ')' {
			if depth == 2 && start >= 0 {
				pairs = append(pairs, out[start:j+1])
				start = -1
			}
			depth--
			if depth == 0 {
				break
			}
		}
	}
	for k, p := range pairs {
		if k >= len(names) {
			break
		}
		// (|wit:name@n| value)
		q := strings.Index(p[1:], "| ")
		if q < 0 {
			continue
		}
		val := strings.TrimSpace(p[q+3 : len(p)-1])
		res[names[k]] = smtValue(val)
	}
	return res
}

func smtValue(v string) interface{} {
	v = strings.TrimSpace(v)
	if v == "true" {
		return true
	}
	if v == "false" {
		return false
	}
	neg := false
	w := v
	if strings.HasPrefix(w, "(- ") && strings.HasSuffix(w, ")") {
		neg = true
		w = strings.TrimSpace(w[3 : len(w)-1])
	}
	if n, err := strconv.ParseInt(w, 10, 64); err == nil {
		if neg {
			n = -n
		}
		return n
	}
	return v
}

func runReplay(verif, repo string, tpl *replayTemplate, wit map[string]interface{}) (string, bool) {
	wj, _ := json.Marshal(wit)
	ovDir := filepath.Join(verif, "out", "tmp")
	os.MkdirAll(ovDir, 0o755)
	ov := filepath.Join(ovDir, fmt.Sprintf("replay_ov_%d.json", os.Getpid()))
	file := tpl.File
	if !filepath.IsAbs(file) {
		file = filepath.Join(verif, file)
	}
	repl := map[string]string{filepath.Join(repo, tpl.Pkg, filepath.Base(file)): file}
	// selftest mode: the mutated sources are an overlay, the replay must run on them too
	for k, v := range replayExtraOverlay {
		repl[k] = v
	}
	ovj, _ := json.Marshal(map[string]interface{}{"Replace": repl})
	os.WriteFile(ov, ovj, 0o644)
	defer os.Remove(ov)
	cmd := exec.Command("go", "test", "-overlay", ov, "-vet=off", "-count=1", "-timeout", "120s", "-run", tpl.Run, "-v", "./"+tpl.Pkg+"/")
	cmd.Dir = repo
	cmd.Env = append(os.Environ(), "GOFLAGS=-mod=mod", "GOPROXY=off", "GOSUMDB=off", "GOTOOLCHAIN=local", "REPLAY_WITNESS="+string(wj))
	out, _ := cmd.CombinedOutput()
	return string(out), strings.Contains(string(out), "REPRODUCED")
}

// groundCandidate drops the quantified assertions of a query and asks z3 for a model.
func groundCandidate(file string) (string, bool) {
	b, err := os.ReadFile(file)
	if err != nil {
		return "", false
	}
	var keep []string
	for _, l := range strings.Split(string(b), "\n") {
		if strings.HasPrefix(l, "(assert") && (strings.Contains(l, "(forall ") || strings.Contains(l, "(exists ")) && !strings.HasPrefix(l, "(assert (not (=>") {
			continue
		}
		keep = append(keep, l)
	}
	g := file + ".ground.smt2"
	os.WriteFile(g, []byte(strings.Join(keep, "\n")), 0o644)
	out, _ := exec.Command("z3-new", "-T:10", g).CombinedOutput()
	first := ""
	for _, ln := range strings.Split(string(out), "\n") {
		ln = strings.TrimSpace(ln)
		if ln == "" || strings.HasPrefix(ln, "WARNING") {
			continue
		}
		first = ln
		break
	}
	return string(out), first == "sat"
}
