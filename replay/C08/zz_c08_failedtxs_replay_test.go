package ledger

// Replay for property C08 (altering a hashed header field changes the block id): the
// failed-transaction map enters the id only through its VALUES (the error strings, in key
// order). Which transactions are marked failed - the keys - is not covered.

import (
	"bytes"
	"testing"

	pb "github.com/xuperchain/xupercore/bcs/ledger/xledger/xldgpb"
)

func TestC08ReplayFailedTxKeysNotInBlockID(t *testing.T) {
	mk := func(failed map[string]string) *pb.InternalBlock {
		return &pb.InternalBlock{Version: 1, Nonce: 7, TxCount: 2, Proposer: []byte("miner"), Timestamp: 1234,
			PreHash: []byte("parent"), MerkleRoot: []byte("root"), FailedTxs: failed, CurTerm: 3, CurBlockNum: 5}
	}
	a, err := MakeBlockID(mk(map[string]string{"txid-of-A": "out of gas"}))
	if err != nil {
		t.Fatal(err)
	}
	b, err := MakeBlockID(mk(map[string]string{"txid-of-B": "out of gas"}))
	if err != nil {
		t.Fatal(err)
	}
	c, _ := MakeBlockID(mk(map[string]string{"txid-of-A": "something else"}))
	if bytes.Equal(a, c) {
		t.Fatalf("setup: the reason is expected to be covered")
	}
	t.Logf("id with A failed: %x\nid with B failed: %x", a, b)
	if bytes.Equal(a, b) {
		t.Errorf("REPRODUCED: marking transaction B as failed instead of transaction A (same reason) leaves the block id unchanged")
	}
}
