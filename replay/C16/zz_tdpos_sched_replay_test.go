package tdpos

// Counterexample replay for tdposSchedule.minerScheduling (property C16), injected
// with go test -overlay. The verifier's model (REPLAY_WITNESS) gives a configuration
// and a timestamp; the real function is run and its answer is compared with the
// closed-form slot relation of the property, written here independently in Go.

import (
	"encoding/json"
	"os"
	"testing"
)

func replayTdposSlot(period, blockNum, proposerNum, alternate, termInterval, initTs, ts, term, pos, bp int64) bool {
	if ts < initTs {
		return term == 0 && pos == 0 && bp == 0
	}
	T := ts / 1000000
	I := initTs / 1000000
	termTime := termInterval + (blockNum-1)*proposerNum*period + (proposerNum-1)*alternate
	posTime := alternate + period*(blockNum-1)
	termStart := func(t int64) int64 { return I + (t-1)*termTime }
	if !(term >= 1 && termStart(term) <= T && T < termStart(term+1)) {
		return false
	}
	termBegin := termStart(term) + termInterval - alternate
	if T <= termBegin {
		return pos == 0 && bp == -1
	}
	if !(pos >= 0 && termBegin+pos*posTime <= T && T < termBegin+(pos+1)*posTime) {
		return false
	}
	propBegin := termBegin + pos*posTime + alternate - period
	if T <= propBegin {
		return bp == -1
	}
	return bp >= 0 && propBegin+bp*period <= T && T < propBegin+(bp+1)*period
}

func TestReplayTdposSchedule(t *testing.T) {
	var w struct {
		Period, BlockNum, ProposerNum, Alternate, TermInterval, InitTimestamp, Timestamp int64
	}
	if err := json.Unmarshal([]byte(os.Getenv("REPLAY_WITNESS")), &w); err != nil {
		t.Skip("no witness")
	}
	s := &tdposSchedule{period: w.Period, blockNum: w.BlockNum, proposerNum: w.ProposerNum, alternateInterval: w.Alternate, termInterval: w.TermInterval, initTimestamp: w.InitTimestamp}
	term, pos, bp := s.minerScheduling(w.Timestamp)
	t.Logf("config %+v -> term=%d pos=%d blockPos=%d", w, term, pos, bp)
	if !replayTdposSlot(w.Period, w.BlockNum, w.ProposerNum, w.Alternate, w.TermInterval, w.InitTimestamp, w.Timestamp, term, pos, bp) {
		t.Errorf("REPRODUCED: minerScheduling(%d) = (%d,%d,%d) is not the slot the schedule prescribes for config %+v", w.Timestamp, term, pos, bp, w)
	}
}
