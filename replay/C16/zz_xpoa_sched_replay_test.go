package xpoa

// Counterexample replay for xpoaSchedule.minerScheduling (property C16).

import (
	"encoding/json"
	"os"
	"testing"
)

func TestReplayXpoaSchedule(t *testing.T) {
	var w struct {
		Period, BlockNum, Timestamp, Length int64
	}
	if err := json.Unmarshal([]byte(os.Getenv("REPLAY_WITNESS")), &w); err != nil {
		t.Skip("no witness")
	}
	if w.Length < 1 || w.Timestamp < 0 || w.Period < 1 || w.BlockNum < 1 {
		t.Skip("witness outside the contract's domain")
	}
	s := &xpoaSchedule{period: w.Period, blockNum: w.BlockNum}
	term, pos, bp := s.minerScheduling(w.Timestamp, int(w.Length))
	T := w.Timestamp / 1000000
	termTime := w.Period * w.Length * w.BlockNum
	posTime := w.Period * w.BlockNum
	res := T - (term-1)*termTime
	ok := term >= 1 && 0 <= res && res < termTime && pos >= 0 && pos*posTime <= res && res < (pos+1)*posTime &&
		bp >= 1 && (bp-1)*w.Period <= res-pos*posTime && res-pos*posTime < bp*w.Period
	t.Logf("witness %+v -> term=%d pos=%d blockPos=%d", w, term, pos, bp)
	if !ok {
		t.Errorf("REPRODUCED: xpoa minerScheduling(%d, %d) = (%d,%d,%d) is not the prescribed slot for %+v", w.Timestamp, w.Length, term, pos, bp, w)
	}
}
