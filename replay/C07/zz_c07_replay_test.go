package state

import (
	"encoding/hex"
	"io/ioutil"
	"math/big"
	"os"
	"testing"
	"time"

	"github.com/golang/protobuf/proto"
	ledger_pkg "github.com/xuperchain/xupercore/bcs/ledger/xledger/ledger"
	"github.com/xuperchain/xupercore/bcs/ledger/xledger/state/context"
	"github.com/xuperchain/xupercore/bcs/ledger/xledger/state/utxo/txhash"
	"github.com/xuperchain/xupercore/bcs/ledger/xledger/state/xmodel"
	txn "github.com/xuperchain/xupercore/bcs/ledger/xledger/tx"
	pb "github.com/xuperchain/xupercore/bcs/ledger/xledger/xldgpb"
	"github.com/xuperchain/xupercore/kernel/mock"
	crypto_client "github.com/xuperchain/xupercore/lib/crypto/client"
	"github.com/xuperchain/xupercore/lib/logs"
	"github.com/xuperchain/xupercore/protos"
)

// rpNewState builds a fresh ledger + state in which bob owns 100 and alice owns 200.
func rpNewState(t *testing.T) (*State, func()) {
	workspace, dirErr := ioutil.TempDir("/tmp", "")
	if dirErr != nil {
		t.Fatal(dirErr)
	}
	os.RemoveAll(workspace)
	econf, err := mock.NewEnvConfForTest()
	if err != nil {
		t.Fatal(err)
	}
	logs.InitLog(econf.GenConfFilePath(econf.LogConf), econf.GenDirAbsPath(econf.LogDir))

	lctx, err := ledger_pkg.NewLedgerCtx(econf, "xuper")
	if err != nil {
		t.Fatal(err)
	}
	lctx.EnvCfg.ChainDir = workspace
	ledger, err := ledger_pkg.CreateLedger(lctx, GenesisConf)
	if err != nil {
		t.Fatal(err)
	}
	rootTx, err := txn.GenerateRootTx([]byte(`
       {
        "version" : "1"
        , "consensus" : {
                "miner" : "0x00000000000"
        }
        , "predistribution":[
                {
                        "address" : "` + BobAddress + `",
                        "quota" : "100"
                },
				{
                        "address" : "` + AliceAddress + `",
                        "quota" : "200"
                }

        ]
        , "maxblocksize" : "128"
        , "period" : "5000"
        , "award" : "1000"
		}
    `))
	if err != nil {
		t.Fatal(err)
	}
	if os.Getenv("C07_MARK_ROOT") != "" {
		rootTx.ModifyBlock = &pb.ModifyBlock{Marked: true, EffectiveHeight: -1}
	}
	block, _ := ledger.FormatRootBlock([]*pb.Transaction{rootTx})
	if st := ledger.ConfirmBlock(block, true); !st.Succ {
		t.Fatal("confirm root block fail")
	}
	crypt, err := crypto_client.CreateCryptoClient(crypto_client.CryptoTypeDefault)
	if err != nil {
		t.Fatal(err)
	}
	sctx, err := context.NewStateCtx(econf, "xuper", ledger, crypt)
	if err != nil {
		t.Fatal(err)
	}
	sctx.EnvCfg.ChainDir = workspace
	st, err := NewState(sctx)
	if err != nil {
		t.Fatal(err)
	}
	if err := st.Play(block.Blockid); err != nil {
		t.Fatal(err)
	}
	return st, func() {
		st.Close()
		ledger.Close()
		os.RemoveAll(workspace)
	}
}

// rpFinish signs tx with the key of `signer` (as initiator and sole auth_require),
// fills in the txid and pushes it through a protobuf round trip, exactly what a
// transaction received from the network looks like.
func rpFinish(t *testing.T, st *State, tx *pb.Transaction, signer string) *pb.Transaction {
	tx.Initiator = Users[signer].Address
	tx.AuthRequire = []string{Users[signer].Address}
	sig, err := txhash.ProcessSignTx(st.sctx.Crypt, tx, []byte(Users[signer].PrivateKey))
	if err != nil {
		t.Fatal(err)
	}
	si := &protos.SignatureInfo{PublicKey: Users[signer].Pubkey, Sign: sig}
	tx.InitiatorSigns = []*protos.SignatureInfo{si}
	tx.AuthRequireSigns = []*protos.SignatureInfo{si}
	tx.Txid, err = txhash.MakeTransactionID(tx)
	if err != nil {
		t.Fatal(err)
	}
	buf, err := proto.Marshal(tx)
	if err != nil {
		t.Fatal(err)
	}
	out := &pb.Transaction{}
	if err := proto.Unmarshal(buf, out); err != nil {
		t.Fatal(err)
	}
	return out
}

func rpSpend(t *testing.T, st *State, owner, to string, version int32) *pb.Transaction {
	need := big.NewInt(100)
	inputs, _, total, err := st.SelectUtxos(Users[owner].Address, need, false, false)
	if err != nil {
		t.Fatal(err)
	}
	tx := &pb.Transaction{
		Version:   version,
		Nonce:     "c07",
		Timestamp: time.Now().UnixNano(),
		TxInputs:  inputs,
	}
	tx.TxOutputs = append(tx.TxOutputs, &protos.TxOutput{ToAddr: []byte(Users[to].Address), Amount: need.Bytes()})
	if total.Cmp(need) > 0 {
		delta := new(big.Int).Sub(total, need)
		tx.TxOutputs = append(tx.TxOutputs, &protos.TxOutput{ToAddr: []byte(Users[owner].Address), Amount: delta.Bytes()})
	}
	return tx
}

// Property C07: the owner of every spent output must have signed (directly or via
// its account ACL), unless the spend is made by contract code that the transaction
// carries and that is re-executed by the verifier.
//
// A transaction WITHOUT any contract request has no code to re-execute, so it must
// never be allowed to declare one of its inputs as "spent by the contract" through
// the transient write-set entry "$transient"/"ContractUtxo.Inputs".

var _ = xmodel.Equal

// TestC07ReplayIgnoredVerdict: the finding fixed by "fix: SubmitTx honours the verdict
// of VerifyTx". With a marked transaction in the ledger, a pool transaction that spends
// one of its outputs WITHOUT the owner's signature gets (false, nil) from VerifyTx;
// a caller that only looks at the error (the old SubmitTx) goes on to DoTx and the
// theft is admitted.
func TestC07ReplayIgnoredVerdict(t *testing.T) {
	os.Setenv("C07_MARK_ROOT", "1")
	defer os.Unsetenv("C07_MARK_ROOT")
	st, done := rpNewState(t)
	defer done()
	// alice spends BOB's output, signed only by alice
	tx := rpSpend(t, st, "bob", "alice", 1)
	tx = rpFinish(t, st, tx, "alice")
	ok, err := st.VerifyTx(tx)
	t.Logf("VerifyTx = (%v, %v)", ok, err)
	if ok {
		t.Fatalf("unexpected: theft verified")
	}
	if err == nil {
		// what the old SubmitTx did: only the error was checked
		if derr := st.DoTx(tx); derr == nil {
			bal, _ := st.GetBalance(Users["bob"].Address)
			t.Errorf("REPRODUCED: VerifyTx answered (false, nil) and DoTx admitted a transaction spending bob's output without bob's signature; bob's balance is now %s", bal.String())
		}
	}
}

// TestC07ReplayBlockTxMarkedVerdict: block path of the same defect. verifyDAGTxs
// returned the error of verifyMarked even when its verdict was false: a block
// transaction spending bob's output without bob's signature, relying on a marked
// transaction past its effective height, got (false, true, nil) and was accepted.
func TestC07ReplayBlockTxMarkedVerdict(t *testing.T) {
	os.Setenv("C07_MARK_ROOT", "1")
	defer os.Unsetenv("C07_MARK_ROOT")
	st, done := rpNewState(t)
	defer done()
	tx := rpSpend(t, st, "bob", "alice", 1)
	tx = rpFinish(t, st, tx, "alice")
	tx.Blockid = st.GetLatestBlockid() // a block at height 0 > effective height -1? use the tip; EffectiveHeight is 0
	root, _ := st.sctx.Ledger.QueryTransaction(tx.TxInputs[0].RefTxid)
	t.Logf("referenced tx marked=%v effective=%d", root.GetModifyBlock().GetMarked(), root.GetModifyBlock().GetEffectiveHeight())
	ok, rely, merr := st.verifyMarked(tx)
	t.Logf("verifyMarked = (%v, %v, %v)", ok, rely, merr)
	err := st.verifyDAGTxs(1, []*pb.Transaction{tx}, false, map[string]bool{})
	if err == nil && !(ok && rely) {
		t.Errorf("REPRODUCED: verifyDAGTxs accepted a block transaction that failed ImmediateVerifyTx and whose marked-tx check answered (%v, %v, %v)", ok, rely, merr)
	}
}

// TestC07ReplayUnsignedSpendScenarios: scenario corpus for the verification chain.
// Alice spends BOB's output with only her own signature, in each of the shapes the
// contracts on the chain distinguish (transaction version; with and without a forged
// "spent by contract" claim in the transient write set of a transaction that carries
// no contract request). Every one of them must be rejected by ImmediateVerifyTx.
func TestC07ReplayUnsignedSpendScenarios(t *testing.T) {
	for _, version := range []int32{1, 2, 3} {
		for _, forgedClaim := range []bool{false, true} {
			st, done := rpNewState(t)
			raw := rpSpend(t, st, "bob", "alice", version)
			if forgedClaim {
				claimed, err := xmodel.MarshalMessages(raw.TxInputs)
				if err != nil {
					done()
					t.Fatal(err)
				}
				raw.TxOutputsExt = []*protos.TxOutputExt{{
					Bucket: xmodel.TransientBucket,
					Key:    []byte("ContractUtxo.Inputs"),
					Value:  claimed,
				}}
			}
			tx := rpFinish(t, st, raw, "alice")
			ok, err := st.ImmediateVerifyTx(tx, false)
			if ok {
				t.Errorf("REPRODUCED: v%d forgedClaim=%v: ImmediateVerifyTx accepted (err=%v) a transaction spending bob's output signed only by alice", version, forgedClaim, err)
			}
			done()
		}
	}
}

// TestC07ReplayForgedMarkSignature: a transaction that fails ImmediateVerifyTx (alice
// spends BOB's output with only her own signature) carries a "marked by the regulator"
// stamp with the regulator's PUBLIC key and a well-formed signature that does not
// verify. verifyMarkedTx answered nil for a signature check that returned (false, nil),
// so VerifyTx accepted the transaction.
func TestC07ReplayForgedMarkSignature(t *testing.T) {
	st, done := rpNewState(t)
	defer done()
	// the regulator is carol-like: here bob's key pair plays the regulator (any configured address does)
	st.utxo.SetModifyBlockAddr(Users["bob"].Address)
	raw := rpSpend(t, st, "bob", "alice", 1)
	tx := rpFinish(t, st, raw, "alice")
	if ok, _ := st.ImmediateVerifyTx(tx, false); ok {
		t.Fatal("setup: the transaction must fail the ordinary verification")
	}
	// a well-formed ECDSA signature by ALICE over unrelated bytes: wrong key, wrong message
	xcc, err := crypto_client.CreateCryptoClient(crypto_client.CryptoTypeDefault)
	if err != nil {
		t.Fatal(err)
	}
	alicePriv, err := xcc.GetEcdsaPrivateKeyFromJsonStr(Users["alice"].PrivateKey)
	if err != nil {
		t.Fatal(err)
	}
	forged, err := xcc.SignECDSA(alicePriv, []byte("something else entirely"))
	if err != nil {
		t.Fatal(err)
	}
	tx.ModifyBlock = &pb.ModifyBlock{Marked: true, PublicKey: Users["bob"].Pubkey, Sign: hex.EncodeToString(forged)}
	ok, verr := st.VerifyTx(tx)
	t.Logf("VerifyTx = (%v, %v)", ok, verr)
	if ok && verr == nil {
		t.Errorf("REPRODUCED: VerifyTx accepted a transaction spending bob's output signed only by alice, on the strength of a regulator mark whose signature does not verify")
	}
}
