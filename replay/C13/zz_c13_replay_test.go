package tx

// Replay and bounded checks for property C13 on the real pool-ordering code
// (injected with go test -overlay).

import (
	"fmt"
	"sync"
	"testing"

	pb "github.com/xuperchain/xupercore/bcs/ledger/xledger/xldgpb"
	"github.com/xuperchain/xupercore/protos"
)

type c13NopLog struct{}

func (c13NopLog) GetLogId() string                           { return "" }
func (c13NopLog) SetCommField(key string, value interface{}) {}
func (c13NopLog) SetInfoField(key string, value interface{}) {}
func (c13NopLog) Error(msg string, ctx ...interface{})       {}
func (c13NopLog) Warn(msg string, ctx ...interface{})        {}
func (c13NopLog) Info(msg string, ctx ...interface{})        {}
func (c13NopLog) Trace(msg string, ctx ...interface{})       {}
func (c13NopLog) Debug(msg string, ctx ...interface{})       {}

func c13Pool(txs ...*pb.Transaction) *Tx {
	t := &Tx{log: c13NopLog{}, UnconfirmTxInMem: &sync.Map{}, maxConfirmedDelay: 1 << 30}
	for _, x := range txs {
		t.UnconfirmTxInMem.Store(string(x.Txid), x)
	}
	return t
}

// c13Read / c13Write build a transaction that reads key k at the version written by
// `ref` (offset 0) and, for a write, also overwrites k.
func c13Read(id, ref string) *pb.Transaction {
	return &pb.Transaction{Txid: []byte(id), TxInputsExt: []*protos.TxInputExt{{Bucket: "b", Key: []byte("k"), RefTxid: []byte(ref), RefOffset: 0}}}
}

func c13Write(id, ref string) *pb.Transaction {
	x := c13Read(id, ref)
	x.TxOutputsExt = []*protos.TxOutputExt{{Bucket: "b", Key: []byte("k"), Value: []byte(id)}}
	return x
}

// c13OrderProblems checks one pool order: every transaction after the pool
// transactions whose outputs / key versions it consumes ("dep"), and every
// transaction that only reads a key version before the one that overwrites that
// version ("antidep").
func c13OrderProblems(order []*pb.Transaction) (dep, antidep string) {
	pos := map[string]int{}
	for i, x := range order {
		pos[string(x.Txid)] = i
	}
	writes := func(x *pb.Transaction, in *protos.TxInputExt) bool {
		for _, o := range x.TxOutputsExt {
			if o.Bucket == in.Bucket && string(o.Key) == string(in.Key) {
				return true
			}
		}
		return false
	}
	for i, x := range order {
		for _, in := range x.TxInputs {
			if p, ok := pos[string(in.RefTxid)]; ok && p > i {
				dep = fmt.Sprintf("%s spends an output of %s but is placed before it", x.Txid, in.RefTxid)
			}
		}
		for _, in := range x.TxInputsExt {
			if p, ok := pos[string(in.RefTxid)]; ok && p > i {
				dep = fmt.Sprintf("%s reads a key version written by %s but is placed before it", x.Txid, in.RefTxid)
			}
			if writes(x, in) {
				continue
			}
			// x only reads this version: any overwriter of the same version must come later
			for j, w := range order {
				if w == x {
					continue
				}
				for _, win := range w.TxInputsExt {
					if win.Bucket == in.Bucket && string(win.Key) == string(in.Key) && string(win.RefTxid) == string(in.RefTxid) && win.RefOffset == in.RefOffset && writes(w, win) && j < i {
						antidep = fmt.Sprintf("%s only reads %s/%s@%s but is placed after %s, which overwrites that version", x.Txid, in.Bucket, in.Key, in.RefTxid, w.Txid)
					}
				}
			}
		}
	}
	return
}

// Pool {R reads k@P, W reads k@P and overwrites k}: both admissible in the order
// R, W. The pool order must keep R before W, whatever the map iteration order.
func TestC13ReplayReaderAfterOverwriter(t *testing.T) {
	bad := 0
	for run := 0; run < 200; run++ {
		pool := c13Pool(c13Read("R", "P"), c13Write("W", "P"))
		order, err := pool.GetUnconfirmedTx(false)
		if err != nil {
			t.Fatal(err)
		}
		if _, anti := c13OrderProblems(order); anti != "" {
			if bad == 0 {
				t.Logf("first bad order: %s", anti)
			}
			bad++
		}
	}
	if bad > 0 {
		t.Errorf("REPRODUCED[antidep]: pool {R reads k@P; W reads k@P and overwrites k}: GetUnconfirmedTx placed W before R in %d of 200 runs", bad)
	}
}

// BOUNDED stand-in for TopSortDFS (recursive closures, outside the verified subset):
// every directed graph on up to 4 nodes, 3 runs each (map iteration order varies):
// an acyclic graph yields a permutation of its nodes that respects every edge; a
// cyclic one is reported cyclic.
func TestC13BoundedTopSort(t *testing.T) {
	graphs, bad := 0, 0
	for n := 1; n <= 4; n++ {
		var pairs [][2]int
		for a := 0; a < n; a++ {
			for b := 0; b < n; b++ {
				if a != b {
					pairs = append(pairs, [2]int{a, b})
				}
			}
		}
		for mask := 0; mask < 1<<uint(len(pairs)); mask++ {
			adj := make([][]int, n)
			for k, p := range pairs {
				if mask&(1<<uint(k)) != 0 {
					adj[p[0]] = append(adj[p[0]], p[1])
				}
			}
			// reference acyclicity check
			state := make([]int, n)
			var cyc func(int) bool
			cyc = func(v int) bool {
				state[v] = 1
				for _, w := range adj[v] {
					if state[w] == 1 || (state[w] == 0 && cyc(w)) {
						return true
					}
				}
				state[v] = 2
				return false
			}
			cyclicRef := false
			for v := 0; v < n && !cyclicRef; v++ {
				if state[v] == 0 && cyc(v) {
					cyclicRef = true
				}
			}
			for run := 0; run < 3; run++ {
				graphs++
				g := TxGraph{}
				for v := 0; v < n; v++ {
					g[fmt.Sprint(v)] = []string{}
					for _, w := range adj[v] {
						g[fmt.Sprint(v)] = append(g[fmt.Sprint(v)], fmt.Sprint(w))
					}
				}
				order, cyclic, _ := TopSortDFS(g)
				if cyclic != cyclicRef {
					bad++
					if bad < 4 {
						t.Errorf("REPRODUCED[topsort]: graph %v: cyclic=%v, expected %v", adj, cyclic, cyclicRef)
					}
					continue
				}
				if cyclic {
					continue
				}
				pos := map[string]int{}
				for i, v := range order {
					pos[v] = i
				}
				if len(order) != n || len(pos) != n {
					bad++
					if bad < 4 {
						t.Errorf("REPRODUCED[topsort]: graph %v: order %v is not a permutation of the %d nodes", adj, order, n)
					}
					continue
				}
				for v := 0; v < n; v++ {
					for _, w := range adj[v] {
						if pos[fmt.Sprint(v)] > pos[fmt.Sprint(w)] {
							bad++
							if bad < 4 {
								t.Errorf("REPRODUCED[topsort]: graph %v: order %v puts %d after %d", adj, order, v, w)
							}
						}
					}
				}
			}
		}
	}
	t.Logf("BOUNDED: %d runs over all directed graphs on 1..4 nodes explored", graphs)
}

// BOUNDED stand-in for the pool order as a whole: every admissible submission
// sequence of up to 4 transactions over one key and token outputs (each step: read
// the key, overwrite the key, or spend the first output of an earlier pool
// transaction), 5 runs each; the order GetUnconfirmedTx returns must respect
// dependencies and anti-dependencies.
func TestC13BoundedPoolOrder(t *testing.T) {
	pools, depBad, antiBad := 0, 0, 0
	var build func(seq []int)
	check := func(seq []int) {
		// seq[i]: 0 = read key, 1 = overwrite key, 2+j = spend output of tx j
		cur := "P" // current version of the key is written by a confirmed tx P
		spent := map[int]bool{}
		var txs []*pb.Transaction
		for i, a := range seq {
			id := fmt.Sprintf("t%d", i)
			switch {
			case a == 0:
				txs = append(txs, c13Read(id, cur))
			case a == 1:
				txs = append(txs, c13Write(id, cur))
				cur = id
			default:
				j := a - 2
				if j >= i || spent[j] {
					return // not admissible
				}
				spent[j] = true
				txs = append(txs, &pb.Transaction{Txid: []byte(id), TxInputs: []*protos.TxInput{{RefTxid: []byte(fmt.Sprintf("t%d", j)), RefOffset: 0}}})
			}
		}
		pools++
		for run := 0; run < 5; run++ {
			order, err := c13Pool(txs...).GetUnconfirmedTx(false)
			if err != nil {
				t.Errorf("REPRODUCED[dep]: sequence %v: %v", seq, err)
				return
			}
			if len(order) != len(txs) {
				t.Errorf("REPRODUCED[dep]: sequence %v: %d of %d transactions returned", seq, len(order), len(txs))
				return
			}
			dep, anti := c13OrderProblems(order)
			if dep != "" {
				depBad++
				if depBad < 4 {
					t.Errorf("REPRODUCED[dep]: sequence %v: %s", seq, dep)
				}
				return
			}
			if anti != "" {
				antiBad++
				if antiBad == 1 {
					t.Errorf("REPRODUCED[antidep]: sequence %v: %s", seq, anti)
				}
				return
			}
		}
	}
	build = func(seq []int) {
		if len(seq) > 0 {
			check(seq)
		}
		if len(seq) == 4 {
			return
		}
		for a := 0; a < 2+len(seq); a++ {
			build(append(append([]int{}, seq...), a))
		}
	}
	build(nil)
	t.Logf("BOUNDED: %d admissible pools of up to 4 transactions explored (5 runs each); dependency violations %d, anti-dependency violations %d", pools, depBad, antiBad)
}
