package chained_bft

// Replay for property C14 (invalid signatures never help to reach the threshold): a vote
// that names a validator, carries that validator's public key and a well-formed
// signature over ANOTHER proposal id. The signature check answers (false, nil);
// CheckVote returned that nil error and the vote was counted.

import (
	"testing"

	cCrypto "github.com/xuperchain/xupercore/kernel/consensus/base/driver/chained-bft/crypto"
	chainedBftPb "github.com/xuperchain/xupercore/kernel/consensus/base/driver/chained-bft/pb"
)

func TestC14ReplayVoteOverAnotherId(t *testing.T) {
	a, cc := NewFakeCryptoClient("nodeA", t)
	crypto := &cCrypto.CBFTCrypto{Address: &a, CryptoClient: cc}
	s := &DefaultSaftyRules{QcTree: initQcTree(), Log: NewFakeLogger("nodeA"), Crypto: crypto}
	// nodeA really signs proposal id {9}
	signOverOther, err := crypto.SignVoteMsg([]byte{9})
	if err != nil {
		t.Fatal(err)
	}
	// the vote claims proposal id {1}
	vote := CreateQC([]byte{1}, 1, []byte{0}, 0)
	vote.SignInfos = []*chainedBftPb.QuorumCertSign{signOverOther}
	if ok, verr := crypto.VerifyVoteMsgSign(signOverOther, vote.GetProposalId()); ok || verr != nil {
		t.Fatalf("setup: the signature must not verify over the voted id, and without an error: ok=%v err=%v", ok, verr)
	}
	cerr := s.CheckVote(vote, "logid", []string{a.Address})
	t.Logf("CheckVote = %v", cerr)
	if cerr == nil {
		t.Errorf("REPRODUCED: CheckVote accepted a vote for proposal {1} whose only signature is the validator's signature over proposal {9}")
	}
}
