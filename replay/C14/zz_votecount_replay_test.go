package chained_bft

// Replay for property C14: the collector counts the entries of a vote message's signature
// list, but only the FIRST entry is checked. A first vote that drags unverified entries
// along makes the collector see a quorum with two real votes out of seven validators.

import (
	"encoding/json"
	"testing"

	cCrypto "github.com/xuperchain/xupercore/kernel/consensus/base/driver/chained-bft/crypto"
	chainedBftPb "github.com/xuperchain/xupercore/kernel/consensus/base/driver/chained-bft/pb"
	"github.com/xuperchain/xupercore/kernel/network/p2p"
	"github.com/xuperchain/xupercore/lib/utils"
	xuperp2p "github.com/xuperchain/xupercore/protos"
)

type c14SevenElection struct{ ElectionA }

func (e *c14SevenElection) GetValidators(round int64) []string {
	return []string{NodeA, NodeB, NodeC, "validator-4", "validator-5", "validator-6", "validator-7"}
}

func c14VoteMsg(t *testing.T, node string, id []byte, extra int) *xuperp2p.XuperMessage {
	a, cc := NewFakeCryptoClient(node, t)
	crypto := cCrypto.NewCBFTCrypto(&a, cc)
	sig, err := crypto.SignVoteMsg(id)
	if err != nil {
		t.Fatal(err)
	}
	signs := []*chainedBftPb.QuorumCertSign{sig}
	for i := 0; i < extra; i++ {
		// entries nobody signed: arbitrary names, no key, no signature
		signs = append(signs, &chainedBftPb.QuorumCertSign{Address: "nobody-" + string(rune('a'+i))})
	}
	vi, _ := json.Marshal(&VoteInfo{ProposalId: id, ProposalView: 1, ParentId: []byte{0}, ParentView: 0})
	ci, _ := json.Marshal(&LedgerCommitInfo{CommitStateId: id})
	return p2p.NewMessage(xuperp2p.XuperMessage_CHAINED_BFT_VOTE_MSG, &chainedBftPb.VoteMsg{VoteInfo: vi, LedgerCommitInfo: ci, Signature: signs})
}

func TestC14ReplayVoteCountOfUncheckedEntries(t *testing.T) {
	log := NewFakeLogger("nodeA")
	a, cc := NewFakeCryptoClient("nodeA", t)
	crypto := cCrypto.NewCBFTCrypto(&a, cc)
	q := InitQcTee(log)
	rules := &DefaultSaftyRules{Crypto: crypto, QcTree: q, Log: log}
	s := NewSmr("xuper", a.Address, log, nil, crypto, &DefaultPaceMaker{}, rules, &c14SevenElection{ElectionA{addrs: []string{NodeA, NodeB, NodeC}}}, q)
	// the collector has processed proposal {1} (child of the root {0})
	id := []byte{1}
	if err := q.updateQcStatus(&ProposalNode{In: CreateQC(id, 1, []byte{0}, 0)}); err != nil {
		t.Fatal(err)
	}
	s.localProposal.Store(utils.F(id), true)
	highBefore := q.GetHighQC().In.GetProposalId()
	viewBefore := s.pacemaker.GetCurrentView()
	// seven validators: a certificate needs 7 - 2 - 1 = 4 votes besides the collector
	if err := s.handleReceivedVoteMsg(c14VoteMsg(t, "nodeB", id, 3)); err != nil {
		t.Fatalf("first vote: %v", err)
	}
	if err := s.handleReceivedVoteMsg(c14VoteMsg(t, "nodeC", id, 0)); err != nil {
		t.Fatalf("second vote: %v", err)
	}
	highAfter := q.GetHighQC().In.GetProposalId()
	viewAfter := s.pacemaker.GetCurrentView()
	t.Logf("HighQC %v -> %v, view %d -> %d", highBefore, highAfter, viewBefore, viewAfter)
	if string(highAfter) == string(id) && string(highBefore) != string(id) {
		t.Errorf("REPRODUCED: with two real votes out of seven validators the collector took proposal %v for certified (HighQC moved, view %d -> %d): it counted three entries of the first vote message that nobody signed", id, viewBefore, viewAfter)
	}
}
