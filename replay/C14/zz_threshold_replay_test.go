package chained_bft

// Counterexample replay for DefaultSaftyRules.CalVotesThreshold (property C14).

import (
	"encoding/json"
	"os"
	"testing"
)

func TestReplayCalVotesThreshold(t *testing.T) {
	var w struct{ Input, Sum int64 }
	if err := json.Unmarshal([]byte(os.Getenv("REPLAY_WITNESS")), &w); err != nil {
		t.Skip("no witness")
	}
	s := &DefaultSaftyRules{}
	got := s.CalVotesThreshold(int(w.Input), int(w.Sum))
	n := w.Sum
	want := w.Input >= n-(n-1)/3-1
	t.Logf("input=%d sum=%d -> %v (want %v)", w.Input, w.Sum, got, want)
	if got != want {
		t.Errorf("REPRODUCED: CalVotesThreshold(%d, %d) = %v, the quorum rule n - floor((n-1)/3) - 1 gives %v", w.Input, w.Sum, got, want)
	}
}
