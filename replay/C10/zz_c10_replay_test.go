package sandbox

// Replay tests for property C10 on the real sandbox (injected with go test -overlay).

import (
	"testing"

	"github.com/xuperchain/xupercore/kernel/contract"
	"github.com/xuperchain/xupercore/kernel/ledger"
)

// c10Backend answers an absent key the way the ledger's XModel does: an EMPTY
// versioned data record (no version, no value), not an error.
type c10Backend struct{ *MemXModel }

func (b c10Backend) Get(bucket string, key []byte) (*ledger.VersionedData, error) {
	v, err := b.MemXModel.Get(bucket, key)
	if err == ErrNotFound {
		return &ledger.VersionedData{PureData: &ledger.PureData{Bucket: bucket, Key: key}}, nil
	}
	return v, err
}

func c10Scan(t *testing.T, xc *XMCache, bucket string) (keys []string, vals []string) {
	it, err := xc.Select(bucket, nil, nil)
	if err != nil {
		t.Fatal(err)
	}
	defer it.Close()
	for it.Next() {
		keys = append(keys, string(it.Key()))
		vals = append(vals, string(it.Value()))
	}
	return
}

// A key deleted earlier in the same execution must not be yielded by a range scan.
func TestC10ReplayDeletedKeyInScan(t *testing.T) {
	state := NewMemXModel()
	putVersionedData(state, "b", []byte("k1"), []byte("v1"))
	putVersionedData(state, "b", []byte("k2"), []byte("v2"))
	xc := NewXModelCache(&contract.SandboxConfig{XMReader: state})
	if err := xc.Del("b", []byte("k1")); err != nil {
		t.Fatal(err)
	}
	if _, err := xc.Get("b", []byte("k1")); err == nil {
		t.Fatal("Get of a deleted key succeeds")
	}
	keys, vals := c10Scan(t, xc, "b")
	t.Logf("scan after Del(k1): keys=%q vals=%q", keys, vals)
	for i, k := range keys {
		if k == "k1" {
			t.Errorf("REPRODUCED: range scan yields key k1 deleted earlier in the same execution (value %q)", vals[i])
		}
	}
}

// A key that was read as absent must not show up in a later scan.
func TestC10ReplayAbsentKeyInScan(t *testing.T) {
	state := NewMemXModel()
	putVersionedData(state, "b", []byte("k2"), []byte("v2"))
	xc := NewXModelCache(&contract.SandboxConfig{XMReader: c10Backend{state}})
	if _, err := xc.Get("b", []byte("k1")); err == nil {
		t.Fatal("Get of an absent key succeeds")
	}
	keys, vals := c10Scan(t, xc, "b")
	t.Logf("scan after Get(absent k1): keys=%q vals=%q", keys, vals)
	for i, k := range keys {
		if k == "k1" {
			t.Errorf("REPRODUCED: range scan yields key k1 that was only read as absent (value %q)", vals[i])
		}
	}
}

// c10LedgerLikeBackend additionally mirrors XModel.Select of the ledger, which
// accepts any bounds (an inverted range is just an empty key-value-store range)
// and never returns an error.
type c10LedgerLikeBackend struct{ c10Backend }

type c10EmptyIter struct{}

func (c10EmptyIter) Key() []byte                  { return nil }
func (c10EmptyIter) Value() *ledger.VersionedData { return nil }
func (c10EmptyIter) Next() bool                   { return false }
func (c10EmptyIter) Error() error                 { return nil }
func (c10EmptyIter) Close()                       {}

func (b c10LedgerLikeBackend) Select(bucket string, startKey []byte, endKey []byte) (ledger.XMIterator, error) {
	it, err := b.MemXModel.Select(bucket, startKey, endKey)
	if err != nil {
		return c10EmptyIter{}, nil
	}
	return it, nil
}

// A scan with inverted bounds (start key after end key) over the ledger's state
// must yield nothing (or report an error) - not crash the node.
func TestC10ReplayInvertedBoundsScan(t *testing.T) {
	state := NewMemXModel()
	putVersionedData(state, "b", []byte("k1"), []byte("v1"))
	xc := NewXModelCache(&contract.SandboxConfig{XMReader: c10LedgerLikeBackend{c10Backend{state}}})
	defer func() {
		if r := recover(); r != nil {
			t.Errorf("REPRODUCED: Select(b, \"z\", \"a\") panics: %v", r)
		}
	}()
	it, err := xc.Select("b", []byte("z"), []byte("a"))
	if err != nil {
		t.Logf("inverted range rejected: %v", err)
		return
	}
	n := 0
	for it.Next() {
		n++
	}
	if n != 0 {
		t.Errorf("REPRODUCED: inverted range yields %d keys", n)
	}
}

// At verification time the backing reader is built from the declared read set, which
// holds an absent-key record (and possibly a delete mark) for keys the pre-execution
// probed: a scan over that reader must not yield them either - without any prior Get
// in this execution.
func TestC10ReplayScanOverReadSetReader(t *testing.T) {
	rset := []*ledger.VersionedData{
		{PureData: &ledger.PureData{Bucket: "b", Key: []byte("k1")}}, // read as absent
		{PureData: &ledger.PureData{Bucket: "b", Key: []byte("k2"), Value: []byte("v2")}, RefTxid: []byte("tx"), RefOffset: 0},
		{PureData: &ledger.PureData{Bucket: "b", Key: []byte("k3"), Value: []byte(DelFlag)}, RefTxid: []byte("tx"), RefOffset: 1}, // deleted
	}
	xc := NewXModelCache(&contract.SandboxConfig{XMReader: XMReaderFromRWSet(&contract.RWSet{RSet: rset})})
	keys, vals := c10Scan(t, xc, "b")
	t.Logf("scan over a read-set reader: keys=%q vals=%q", keys, vals)
	for i, k := range keys {
		if k != "k2" {
			t.Errorf("REPRODUCED: range scan over the verifier's reader yields %s (value %q), which the declared read set records as absent or deleted", k, vals[i])
		}
	}
	if len(keys) != 1 {
		t.Errorf("REPRODUCED: range scan over the verifier's reader yields %d keys, the only live key is k2", len(keys))
	}
}
