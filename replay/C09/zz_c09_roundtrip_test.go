package state

// Demonstration for property C09 ("what was pre-executed is what is verified
// and committed").
//
// Scenario (all through the real State / XModel / contract manager / sandbox):
//
//   tx1: put  c09/a=1, c09/b=2, c09/c=3
//   tx2: del  c09/b
//   tx3: "audit": point-reads c09/b (finds it deleted), range-scans c09/[a,z)
//        and stores the listing it saw under c09sum/listing.
//
// Every transaction is produced exactly the way a client does it: the requests
// are pre-executed against the current state, the returned read / write set is
// assembled into a signed transaction, and the transaction is verified and
// committed against that same (unchanged) state.  C09 demands that each of them
// passes verification and that committing changes exactly the keys of the
// pre-executed write set to exactly those values.

import (
	"bytes"
	"fmt"
	"os"
	"path/filepath"
	"testing"
	"time"

	ledger_pkg "github.com/xuperchain/xupercore/bcs/ledger/xledger/ledger"
	"github.com/xuperchain/xupercore/bcs/ledger/xledger/state/context"
	"github.com/xuperchain/xupercore/bcs/ledger/xledger/state/utxo/txhash"
	"github.com/xuperchain/xupercore/bcs/ledger/xledger/state/xmodel"
	txn "github.com/xuperchain/xupercore/bcs/ledger/xledger/tx"
	pb "github.com/xuperchain/xupercore/bcs/ledger/xledger/xldgpb"
	"github.com/xuperchain/xupercore/kernel/contract"
	"github.com/xuperchain/xupercore/kernel/mock"
	crypto_client "github.com/xuperchain/xupercore/lib/crypto/client"
	"github.com/xuperchain/xupercore/lib/logs"
	"github.com/xuperchain/xupercore/protos"
)

const (
	c09Contract  = "$c09demo"
	c09Bucket    = "c09"
	c09SumBucket = "c09sum"
)

type c09Env struct {
	t     *testing.T
	state *State
	mgr   contract.Manager
}

// newC09Env opens a fresh ledger + state and wires a contract manager that only
// has the kernel ("xkernel") vm enabled, plus the acl manager.
func newC09Env(t *testing.T) (*c09Env, func()) {
	econf, err := mock.NewEnvConfForTest()
	if err != nil {
		t.Fatal(err)
	}
	// the chain dir is resolved below the data dir of the mock environment
	// (kernel/mock/data); use a private sub directory and remove it afterwards.
	workspace := fmt.Sprintf("c09demo-%d", time.Now().UnixNano())
	dataRoot := econf.GenDataAbsPath(workspace)
	os.RemoveAll(dataRoot)
	logs.InitLog(econf.GenConfFilePath(econf.LogConf), econf.GenDirAbsPath(econf.LogDir))

	lctx, err := ledger_pkg.NewLedgerCtx(econf, "xuper")
	if err != nil {
		t.Fatal(err)
	}
	lctx.EnvCfg.ChainDir = workspace
	ledger, err := ledger_pkg.CreateLedger(lctx, GenesisConf)
	if err != nil {
		t.Fatal(err)
	}
	rootTx, err := txn.GenerateRootTx([]byte(`
       {
        "version" : "1"
        , "consensus" : { "miner" : "0x00000000000" }
        , "predistribution":[ { "address" : "` + BobAddress + `", "quota" : "100" } ]
        , "maxblocksize" : "128"
        , "period" : "5000"
        , "award" : "1000"
       }`))
	if err != nil {
		t.Fatal(err)
	}
	block, err := ledger.FormatRootBlock([]*pb.Transaction{rootTx})
	if err != nil {
		t.Fatal(err)
	}
	if st := ledger.ConfirmBlock(block, true); !st.Succ {
		t.Fatal("confirm root block failed")
	}
	crypt, err := crypto_client.CreateCryptoClient(crypto_client.CryptoTypeDefault)
	if err != nil {
		t.Fatal(err)
	}
	sctx, err := context.NewStateCtx(econf, "xuper", ledger, crypt)
	if err != nil {
		t.Fatal(err)
	}
	sctx.EnvCfg.ChainDir = workspace
	st, err := NewState(sctx)
	if err != nil {
		t.Fatal(err)
	}
	if err := st.Play(block.Blockid); err != nil {
		t.Fatal(err)
	}

	mgr, err := contract.CreateManager("default", &contract.ManagerConfig{
		BCName:   "xuper",
		Basedir:  filepath.Join(dataRoot, "contract"),
		Core:     st,
		XMReader: st.CreateXMReader(),
		Config: &contract.ContractConfig{
			Xkernel: contract.XkernelConfig{Enable: true, Driver: "default"},
		},
	})
	if err != nil {
		t.Fatal(err)
	}
	lagent, err := NewLedgerAgent(st, ledger)
	if err != nil {
		t.Fatal(err)
	}
	aclMgr, err := NewAcl(lagent, mgr)
	if err != nil {
		t.Fatal(err)
	}
	st.SetAclMG(aclMgr)
	st.SetContractMG(mgr)

	env := &c09Env{t: t, state: st, mgr: mgr}
	env.registerContract()
	cleanup := func() {
		st.Close()
		ledger.Close()
		os.RemoveAll(dataRoot)
	}
	return env, cleanup
}

// registerContract installs a tiny kernel contract made of get / put / delete /
// range scan calls only.
func (e *c09Env) registerContract() {
	reg := e.mgr.GetKernRegistry()
	ok := func(body string) (*contract.Response, error) {
		return &contract.Response{Status: 200, Message: "ok", Body: []byte(body)}, nil
	}
	reg.RegisterKernMethod(c09Contract, "put", func(ctx contract.KContext) (*contract.Response, error) {
		if err := ctx.Put(c09Bucket, ctx.Args()["key"], ctx.Args()["value"]); err != nil {
			return nil, err
		}
		return ok("")
	})
	reg.RegisterKernMethod(c09Contract, "del", func(ctx contract.KContext) (*contract.Response, error) {
		if err := ctx.Del(c09Bucket, ctx.Args()["key"]); err != nil {
			return nil, err
		}
		return ok("")
	})
	// audit: "is <probe> still there?" followed by a listing of [start, end).
	reg.RegisterKernMethod(c09Contract, "audit", func(ctx contract.KContext) (*contract.Response, error) {
		probe := "present"
		if _, err := ctx.Get(c09Bucket, ctx.Args()["probe"]); err != nil {
			probe = "absent"
		}
		iter, err := ctx.Select(c09Bucket, ctx.Args()["start"], ctx.Args()["end"])
		if err != nil {
			return nil, err
		}
		defer iter.Close()
		listing := fmt.Sprintf("probe=%s;", probe)
		for iter.Next() {
			listing += fmt.Sprintf("%s=%q;", iter.Key(), iter.Value())
		}
		if iter.Error() != nil {
			return nil, iter.Error()
		}
		if err := ctx.Put(c09SumBucket, []byte("listing"), []byte(listing)); err != nil {
			return nil, err
		}
		return ok(listing)
	})
}

func c09Req(method string, kv ...string) *protos.InvokeRequest {
	args := map[string][]byte{}
	for i := 0; i+1 < len(kv); i += 2 {
		args[kv[i]] = []byte(kv[i+1])
	}
	return &protos.InvokeRequest{
		ModuleName:   "xkernel",
		ContractName: c09Contract,
		MethodName:   method,
		Args:         args,
	}
}

// preExec mirrors kernel/engines/xuperos Chain.PreExec: run the requests in a
// sandbox on top of the current state and hand back requests (with the resource
// limits that were used), read set and write set.
func (e *c09Env) preExec(reqs ...*protos.InvokeRequest) *protos.InvokeResponse {
	t := e.t
	sb, err := e.mgr.NewStateSandbox(&contract.SandboxConfig{
		XMReader:   e.state.CreateXMReader(),
		UTXOReader: e.state.CreateUtxoReader(),
	})
	if err != nil {
		t.Fatal(err)
	}
	resp := &protos.InvokeResponse{}
	for _, req := range reqs {
		ctx, err := e.mgr.NewContext(&contract.ContextConfig{
			State:          sb,
			Initiator:      BobAddress,
			AuthRequire:    []string{BobAddress},
			ResourceLimits: contract.MaxLimits,
			Module:         req.ModuleName,
			ContractName:   req.ContractName,
		})
		if err != nil {
			t.Fatalf("preExec NewContext: %v", err)
		}
		r, err := ctx.Invoke(req.MethodName, req.Args)
		if err != nil {
			ctx.Release()
			t.Fatalf("preExec Invoke %s: %v", req.MethodName, err)
		}
		request := *req
		request.ResourceLimits = contract.ToPbLimits(ctx.ResourceUsed())
		resp.Requests = append(resp.Requests, &request)
		resp.Response = append(resp.Response, r.Body)
		ctx.Release()
	}
	if err := sb.Flush(); err != nil {
		t.Fatal(err)
	}
	rw := sb.RWSet()
	resp.Inputs = xmodel.GetTxInputs(rw.RSet)
	resp.Outputs = xmodel.GetTxOutputs(rw.WSet)
	return resp
}

// assemble turns a pre-execution result into a signed transaction of bob.
func (e *c09Env) assemble(resp *protos.InvokeResponse, nonce string) *pb.Transaction {
	t := e.t
	tx := &pb.Transaction{
		Version:          1,
		Nonce:            nonce,
		Timestamp:        time.Now().UnixNano(),
		Desc:             []byte("c09 demo"),
		Initiator:        BobAddress,
		AuthRequire:      []string{BobAddress},
		TxInputsExt:      resp.Inputs,
		TxOutputsExt:     resp.Outputs,
		ContractRequests: resp.Requests,
	}
	sign, err := txhash.ProcessSignTx(e.state.sctx.Crypt, tx, []byte(BobPrivateKey))
	if err != nil {
		t.Fatal(err)
	}
	tx.InitiatorSigns = []*protos.SignatureInfo{{PublicKey: BobPubkey, Sign: sign}}
	tx.AuthRequireSigns = tx.InitiatorSigns
	tx.Txid, err = txhash.MakeTransactionID(tx)
	if err != nil {
		t.Fatal(err)
	}
	return tx
}

// submit = pre-execute, assemble, verify, commit; then check that exactly the
// pre-executed write set is what the state now holds.
func (e *c09Env) submit(name string, reqs ...*protos.InvokeRequest) *protos.InvokeResponse {
	t := e.t
	resp := e.preExec(reqs...)
	tx := e.assemble(resp, name)
	okVerify, err := e.state.VerifyTx(tx)
	if err != nil || !okVerify {
		t.Fatalf("%s: the pre-executed read/write set was assembled into a tx and submitted against "+
			"the same state, but verification rejected it: ok=%v err=%v\n  pre-exec response: %q\n  write set: %v",
			name, okVerify, err, resp.Response, resp.Outputs)
	}
	if err := e.state.DoTx(tx); err != nil {
		t.Fatalf("%s: commit failed: %v", name, err)
	}
	for i, out := range resp.Outputs {
		if out.Bucket == xmodel.TransientBucket {
			continue
		}
		vd, err := e.state.xmodel.Get(out.Bucket, out.Key)
		if err != nil {
			t.Fatalf("%s: read back %s/%s: %v", name, out.Bucket, out.Key, err)
		}
		if !bytes.Equal(vd.GetPureData().GetValue(), out.Value) {
			t.Fatalf("%s: committed %s/%s=%q, write set said %q", name, out.Bucket, out.Key,
				vd.GetPureData().GetValue(), out.Value)
		}
		if !bytes.Equal(vd.RefTxid, tx.Txid) || vd.RefOffset != int32(i) {
			t.Fatalf("%s: %s/%s not at version of committing tx", name, out.Bucket, out.Key)
		}
	}
	return resp
}

func TestC09PreExecutedScanAfterDeleteIsVerified(t *testing.T) {
	env, cleanup := newC09Env(t)
	defer cleanup()

	// history: create three keys, then delete the middle one.
	env.submit("tx1-create",
		c09Req("put", "key", "a", "value", "1"),
		c09Req("put", "key", "b", "value", "2"),
		c09Req("put", "key", "c", "value", "3"),
	)
	env.submit("tx2-delete-b", c09Req("del", "key", "b"))

	// sanity: a plain scan (no point read of the deleted key) round-trips.
	r := env.submit("tx3-scan-only", c09Req("audit", "probe", "a", "start", "a", "end", "z"))
	if got, want := string(r.Response[0]), `probe=present;a="1";c="3";`; got != want {
		t.Fatalf("unexpected listing %q, want %q", got, want)
	}

	// the interesting program: point-read the deleted key AND scan over it.
	r = env.submit("tx4-probe-deleted-then-scan", c09Req("audit", "probe", "b", "start", "a", "end", "z"))
	if got, want := string(r.Response[0]), `probe=absent;a="1";c="3";`; got != want {
		t.Fatalf("unexpected listing %q, want %q", got, want)
	}
	vd, err := env.state.xmodel.Get(c09SumBucket, []byte("listing"))
	if err != nil {
		t.Fatal(err)
	}
	if got, want := string(vd.GetPureData().GetValue()), `probe=absent;a="1";c="3";`; got != want {
		t.Fatalf("committed listing %q, want %q", got, want)
	}
}

// Added when the seeded change was rebased onto the tree with the scan fixes
// (e21517f, 17eb53a): with delete marks stripped once more after the outer merge,
// the change now shows on a key that was probed and found NEVER WRITTEN - the
// verifier's reader holds an absent-key record for it, and an unstripped backend
// level yields that record as a key of the range.
func TestC09PreExecutedScanAfterAbsentProbeIsVerified(t *testing.T) {
	env, cleanup := newC09Env(t)
	defer cleanup()
	env.submit("tx1-create",
		c09Req("put", "key", "a", "value", "1"),
		c09Req("put", "key", "c", "value", "3"),
	)
	r := env.submit("tx2-probe-absent-then-scan", c09Req("audit", "probe", "b", "start", "a", "end", "z"))
	if got, want := string(r.Response[0]), `probe=absent;a="1";c="3";`; got != want {
		t.Fatalf("unexpected listing %q, want %q", got, want)
	}
}
