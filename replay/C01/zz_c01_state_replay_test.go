package state

import (
	"io/ioutil"
	"math/big"
	"os"
	"testing"
	"time"

	"github.com/golang/protobuf/proto"
	ledger_pkg "github.com/xuperchain/xupercore/bcs/ledger/xledger/ledger"
	"github.com/xuperchain/xupercore/bcs/ledger/xledger/state/context"
	"github.com/xuperchain/xupercore/bcs/ledger/xledger/state/utxo/txhash"
	"github.com/xuperchain/xupercore/bcs/ledger/xledger/state/xmodel"
	txn "github.com/xuperchain/xupercore/bcs/ledger/xledger/tx"
	pb "github.com/xuperchain/xupercore/bcs/ledger/xledger/xldgpb"
	"github.com/xuperchain/xupercore/kernel/mock"
	crypto_client "github.com/xuperchain/xupercore/lib/crypto/client"
	"github.com/xuperchain/xupercore/lib/logs"
	"github.com/xuperchain/xupercore/protos"
)

// c1NewState builds a fresh ledger + state in which bob owns 100 and alice owns 200.
func c1NewState(t *testing.T) (*State, func()) {
	workspace, dirErr := ioutil.TempDir("/tmp", "")
	if dirErr != nil {
		t.Fatal(dirErr)
	}
	os.RemoveAll(workspace)
	econf, err := mock.NewEnvConfForTest()
	if err != nil {
		t.Fatal(err)
	}
	logs.InitLog(econf.GenConfFilePath(econf.LogConf), econf.GenDirAbsPath(econf.LogDir))

	lctx, err := ledger_pkg.NewLedgerCtx(econf, "xuper")
	if err != nil {
		t.Fatal(err)
	}
	lctx.EnvCfg.ChainDir = workspace
	ledger, err := ledger_pkg.CreateLedger(lctx, GenesisConf)
	if err != nil {
		t.Fatal(err)
	}
	rootTx, err := txn.GenerateRootTx([]byte(`
       {
        "version" : "1"
        , "consensus" : {
                "miner" : "0x00000000000"
        }
        , "predistribution":[
                {
                        "address" : "` + BobAddress + `",
                        "quota" : "100"
                },
				{
                        "address" : "` + AliceAddress + `",
                        "quota" : "200"
                }

        ]
        , "maxblocksize" : "128"
        , "period" : "5000"
        , "award" : "1000"
		}
    `))
	if err != nil {
		t.Fatal(err)
	}
	if os.Getenv("C07_MARK_ROOT") != "" {
		rootTx.ModifyBlock = &pb.ModifyBlock{Marked: true, EffectiveHeight: -1}
	}
	block, _ := ledger.FormatRootBlock([]*pb.Transaction{rootTx})
	if st := ledger.ConfirmBlock(block, true); !st.Succ {
		t.Fatal("confirm root block fail")
	}
	crypt, err := crypto_client.CreateCryptoClient(crypto_client.CryptoTypeDefault)
	if err != nil {
		t.Fatal(err)
	}
	sctx, err := context.NewStateCtx(econf, "xuper", ledger, crypt)
	if err != nil {
		t.Fatal(err)
	}
	sctx.EnvCfg.ChainDir = workspace
	st, err := NewState(sctx)
	if err != nil {
		t.Fatal(err)
	}
	if err := st.Play(block.Blockid); err != nil {
		t.Fatal(err)
	}
	return st, func() {
		st.Close()
		ledger.Close()
		os.RemoveAll(workspace)
	}
}

// c1Finish signs tx with the key of `signer` (as initiator and sole auth_require),
// fills in the txid and pushes it through a protobuf round trip, exactly what a
// transaction received from the network looks like.
func c1Finish(t *testing.T, st *State, tx *pb.Transaction, signer string) *pb.Transaction {
	tx.Initiator = Users[signer].Address
	tx.AuthRequire = []string{Users[signer].Address}
	sig, err := txhash.ProcessSignTx(st.sctx.Crypt, tx, []byte(Users[signer].PrivateKey))
	if err != nil {
		t.Fatal(err)
	}
	si := &protos.SignatureInfo{PublicKey: Users[signer].Pubkey, Sign: sig}
	tx.InitiatorSigns = []*protos.SignatureInfo{si}
	tx.AuthRequireSigns = []*protos.SignatureInfo{si}
	tx.Txid, err = txhash.MakeTransactionID(tx)
	if err != nil {
		t.Fatal(err)
	}
	buf, err := proto.Marshal(tx)
	if err != nil {
		t.Fatal(err)
	}
	out := &pb.Transaction{}
	if err := proto.Unmarshal(buf, out); err != nil {
		t.Fatal(err)
	}
	return out
}

func c1Spend(t *testing.T, st *State, owner, to string, version int32) *pb.Transaction {
	need := big.NewInt(100)
	inputs, _, total, err := st.SelectUtxos(Users[owner].Address, need, false, false)
	if err != nil {
		t.Fatal(err)
	}
	tx := &pb.Transaction{
		Version:   version,
		Nonce:     "c07",
		Timestamp: time.Now().UnixNano(),
		TxInputs:  inputs,
	}
	tx.TxOutputs = append(tx.TxOutputs, &protos.TxOutput{ToAddr: []byte(Users[to].Address), Amount: need.Bytes()})
	if total.Cmp(need) > 0 {
		delta := new(big.Int).Sub(total, need)
		tx.TxOutputs = append(tx.TxOutputs, &protos.TxOutput{ToAddr: []byte(Users[owner].Address), Amount: delta.Bytes()})
	}
	return tx
}


var _ = xmodel.Equal
var _ = os.Setenv

// An input may declare any FrozenHeight: it is never compared with the stored one.
// Playing and then undoing such a transaction puts the output back with the DECLARED
// frozen height, so the state after undo differs from the state before play: here an
// unfrozen output of bob comes back frozen until height 999.
func TestC01ReplayUndoRestoresDeclaredFrozenHeight(t *testing.T) {
	st, done := c1NewState(t)
	defer done()
	frozenBefore, _ := st.GetFrozenBalance(Users["bob"].Address)
	balBefore, _ := st.GetBalance(Users["bob"].Address)
	raw := c1Spend(t, st, "bob", "alice", 1)
	for _, in := range raw.TxInputs {
		in.FrozenHeight = 999
	}
	tx := c1Finish(t, st, raw, "bob")
	if ok, err := st.VerifyTx(tx); !ok || err != nil {
		t.Fatalf("transaction refused: ok=%v err=%v", ok, err)
	}
	if err := st.DoTx(tx); err != nil {
		t.Fatalf("DoTx: %v", err)
	}
	if _, _, err := st.RollBackUnconfirmedTx(); err != nil {
		t.Fatalf("rollback: %v", err)
	}
	st.ClearCache()
	frozenAfter, _ := st.GetFrozenBalance(Users["bob"].Address)
	balAfter, _ := st.GetBalance(Users["bob"].Address)
	t.Logf("bob before: balance=%s frozen=%s; after play+undo: balance=%s frozen=%s", balBefore, frozenBefore, balAfter, frozenAfter)
	if frozenBefore.Cmp(frozenAfter) != 0 {
		t.Errorf("REPRODUCED[frozen-height]: after playing and undoing a transaction whose input declares FrozenHeight 999 for an unfrozen output, bob's frozen balance is %s (was %s)", frozenAfter, frozenBefore)
	}
}
