package xmodel

// Replay tests for property C01 on the real XModel (injected with go test -overlay).

import (
	"fmt"
	"io/ioutil"
	"os"
	"path/filepath"
	"testing"

	"github.com/xuperchain/xupercore/bcs/ledger/xledger/def"
	ledger_pkg "github.com/xuperchain/xupercore/bcs/ledger/xledger/ledger"
	"github.com/xuperchain/xupercore/bcs/ledger/xledger/state/context"
	pb "github.com/xuperchain/xupercore/bcs/ledger/xledger/xldgpb"
	"github.com/xuperchain/xupercore/kernel/mock"
	crypto_client "github.com/xuperchain/xupercore/lib/crypto/client"
	"github.com/xuperchain/xupercore/lib/logs"
	"github.com/xuperchain/xupercore/lib/storage/kvdb"
	"github.com/xuperchain/xupercore/protos"
)

func c01Model(t *testing.T) (*XModel, kvdb.Database, func()) {
	workspace, dirErr := ioutil.TempDir("/tmp", "")
	if dirErr != nil {
		t.Fatal(dirErr)
	}
	os.RemoveAll(workspace)
	econf, err := mock.NewEnvConfForTest()
	if err != nil {
		t.Fatal(err)
	}
	logs.InitLog(econf.GenConfFilePath(econf.LogConf), econf.GenDirAbsPath(econf.LogDir))
	lctx, err := ledger_pkg.NewLedgerCtx(econf, "xuper")
	if err != nil {
		t.Fatal(err)
	}
	lctx.EnvCfg.ChainDir = workspace
	ledger, err := ledger_pkg.CreateLedger(lctx, GenesisConf)
	if err != nil {
		t.Fatal(err)
	}
	crypt, err := crypto_client.CreateCryptoClient(crypto_client.CryptoTypeDefault)
	if err != nil {
		t.Fatal(err)
	}
	sctx, err := context.NewStateCtx(econf, "xuper", ledger, crypt)
	if err != nil {
		t.Fatal(err)
	}
	sctx.EnvCfg.ChainDir = workspace
	storePath := filepath.Join(sctx.EnvCfg.GenDataAbsPath(sctx.EnvCfg.ChainDir), sctx.BCName)
	ldb, err := kvdb.CreateKVInstance(&kvdb.KVParameter{
		DBPath:                filepath.Join(storePath, def.StateStrgDirName),
		KVEngineType:          sctx.LedgerCfg.KVEngineType,
		MemCacheSize:          ledger_pkg.MemCacheSize,
		FileHandlersCacheSize: ledger_pkg.FileHandlersCacheSize,
		OtherPaths:            sctx.LedgerCfg.OtherPaths,
		StorageType:           sctx.LedgerCfg.StorageType,
	})
	if err != nil {
		t.Fatal(err)
	}
	m, err := NewXModel(sctx, ldb)
	if err != nil {
		t.Fatal(err)
	}
	return m, ldb, func() { ldb.Close(); ledger.Close(); os.RemoveAll(workspace) }
}

// c01Write builds a transaction that reads key k at the version (refTxid, 0) and
// overwrites it.
func c01Write(id string, refTxid []byte, value string) *pb.Transaction {
	return &pb.Transaction{
		Txid:         []byte(id),
		TxInputsExt:  []*protos.TxInputExt{{Bucket: "b", Key: []byte("k"), RefTxid: refTxid, RefOffset: 0}},
		TxOutputsExt: []*protos.TxOutputExt{{Bucket: "b", Key: []byte("k"), Value: []byte(value)}},
	}
}

// c01KeyState is everything a client can observe about one key: what Get answers
// (version and value) and the raw pointer records of the two tables.
func c01KeyState(t *testing.T, m *XModel, ldb kvdb.Database, bucket, key string) string {
	vd, err := m.Get(bucket, []byte(key))
	if err != nil {
		return "Get error: " + err.Error()
	}
	live, _ := ldb.Get(append([]byte(pb.ExtUtxoTablePrefix), makeRawKey(bucket, []byte(key))...))
	del, _ := ldb.Get(append([]byte(pb.ExtUtxoDelTablePrefix), makeRawKey(bucket, []byte(key))...))
	return "version=" + GetVersion(vd) + " value=" + fmt.Sprintf("%q", vd.GetPureData().GetValue()) + " live-pointer=" + string(live) + " recycle-pointer=" + string(del)
}

func c01Run(t *testing.T, m *XModel, ldb kvdb.Database, undo bool, tx *pb.Transaction) {
	batch := ldb.NewBatch()
	var err error
	if undo {
		err = m.UndoTx(tx, batch)
	} else {
		err = m.DoTx(tx, batch)
		if err == nil {
			err = saveUnconfirmTx(tx, batch)
		}
	}
	if err != nil {
		t.Fatal(err)
	}
	if err := batch.Write(); err != nil {
		t.Fatal(err)
	}
}

// Undoing a transaction must exactly cancel playing it, for each shape of write:
// create, overwrite, delete an existing key, delete a key that never existed,
// re-create a deleted key.
func TestC01ReplayUndoCancelsDo(t *testing.T) {
	del := string([]byte{0}) // the delete flag
	type step struct {
		name  string
		setup []*pb.Transaction // history played first (each cites the previous one)
		value string            // value the transaction under test writes
	}
	w := func(id string, ref []byte, value string) *pb.Transaction { return c01Write(id, ref, value) }
	cases := []step{
		{"create", nil, "v1"},
		{"overwrite", []*pb.Transaction{w("A", nil, "v0")}, "v1"},
		{"delete existing", []*pb.Transaction{w("A", nil, "v0")}, del},
		{"delete a key that never existed", nil, del},
		{"re-create a deleted key", []*pb.Transaction{w("A", nil, "v0"), w("B", []byte("A"), del)}, "v2"},
		{"delete an already deleted key", []*pb.Transaction{w("A", nil, "v0"), w("B", []byte("A"), del)}, del},
	}
	for _, c := range cases {
		m, ldb, done := c01Model(t)
		var ref []byte
		for _, s := range c.setup {
			c01Run(t, m, ldb, false, s)
			ref = s.Txid
		}
		before := c01KeyState(t, m, ldb, "b", "k")
		tx := w("T", ref, c.value)
		c01Run(t, m, ldb, false, tx)
		c01Run(t, m, ldb, true, tx)
		after := c01KeyState(t, m, ldb, "b", "k")
		if before != after {
			t.Errorf("REPRODUCED: %s: playing and undoing the transaction leaves a different state:\n    before: %s\n    after:  %s", c.name, before, after)
		}
		done()
	}
}
