package utils

// Replay for C11: an address node counts only if a signer uri ENDS in it (its signature is
// the one checked), and adding a signer uri never turns acceptance into rejection.

import (
	"testing"

	pb "github.com/xuperchain/xupercore/protos"
)

type c11rpMgr struct{ acls map[string]*pb.Acl }

func (m *c11rpMgr) GetAccountACL(name string) (*pb.Acl, error)              { return m.acls[name], nil }
func (m *c11rpMgr) GetContractMethodACL(c, me string) (*pb.Acl, error)      { return nil, nil }
func (m *c11rpMgr) GetAccountAddresses(accountName string) ([]string, error) { return nil, nil }

func TestC11ReplaySignerUriEndsAndMonotone(t *testing.T) {
	const acct = "XC1111111111111111@xuper"
	const k1 = "dpzuVdosQrF2kmzumhVeFQZa1aYcdgFpN"
	const k2 = "WNWk3ekXeM5M2232dY2uCJmEqWhfQiDYT"
	mgr := &c11rpMgr{acls: map[string]*pb.Acl{acct: {
		Pm:        &pb.PermissionModel{Rule: pb.PermissionRule_SIGN_THRESHOLD, AcceptValue: 1},
		AksWeight: map[string]float64{k1: 1},
	}}}
	check := func(uris []string, want bool, what string) {
		got, err := IdentifyAccount(mgr, acct, uris)
		t.Logf("%v -> (%v, %v)", uris, got, err)
		if got != want {
			t.Errorf("REPRODUCED: %s: IdentifyAccount(%v) = %v, want %v", what, uris, got, want)
		}
	}
	check([]string{acct + "/" + k1}, true, "the member's own signature satisfies the rule")
	check([]string{acct + "/" + k1 + "/" + k2}, false, "an outsider's signature behind the member's name must not count as the member's")
	check([]string{acct + "/" + k1, acct + "/" + k1 + "/" + k2}, true, "adding a signer uri must not turn acceptance into rejection")
}
