package state

import (
	"io/ioutil"
	"math/big"
	"os"
	"testing"
	"time"

	ledger_pkg "github.com/xuperchain/xupercore/bcs/ledger/xledger/ledger"
	"github.com/xuperchain/xupercore/bcs/ledger/xledger/state/context"
	"github.com/xuperchain/xupercore/bcs/ledger/xledger/state/utxo/txhash"
	txn "github.com/xuperchain/xupercore/bcs/ledger/xledger/tx"
	pb "github.com/xuperchain/xupercore/bcs/ledger/xledger/xldgpb"
	"github.com/xuperchain/xupercore/kernel/mock"
	crypto_client "github.com/xuperchain/xupercore/lib/crypto/client"
	"github.com/xuperchain/xupercore/lib/logs"
	"github.com/xuperchain/xupercore/protos"
)

// Replay for C11 / C07: a signer URI names, after the account, a MEMBER of the account's
// rule and then a foreign key: "account/member/outsider". Only the last segment's key signs.
// validatePermTree marks every address node as passed, so the member's weight counted
// although the member never signed.

const (
	// an account that exists on chain, controlled by bob alone
	c11rpKnownAccount = "XC1111111111111111@xuper"
	// a syntactically valid account name without any ACL on chain
	c11rpGhostAccount = "XC2222222222222222@xuper"
)

// c11rpAclMgr is a table backed acl manager; like the real manager
// (kernel/permission/acl.Manager.GetAccountACL) it answers (nil, nil) for an account
// that has no ACL stored on chain.
type c11rpAclMgr struct {
	accounts map[string]*protos.Acl
}

func (m *c11rpAclMgr) GetAccountACL(accountName string) (*protos.Acl, error) {
	return m.accounts[accountName], nil
}

func (m *c11rpAclMgr) GetContractMethodACL(contractName, methodName string) (*protos.Acl, error) {
	return nil, nil
}

func (m *c11rpAclMgr) GetAccountAddresses(accountName string) ([]string, error) {
	addrs := []string{}
	for ak := range m.accounts[accountName].GetAksWeight() {
		addrs = append(addrs, ak)
	}
	return addrs, nil
}

// c11rpSpendTx builds and signs a plain (version 1) transfer that moves `amount` out of
// `owner` to `to`; the transaction is initiated and signed by `signer` only and lists
// `authRequire` as its signer.
func c11rpSpendTx(t *testing.T, st *State, signer, owner, to, authRequire, amount string) *pb.Transaction {
	need, _ := big.NewInt(0).SetString(amount, 10)
	tx := &pb.Transaction{
		Version:     1,
		Nonce:       "seed-c07-" + owner + "-" + signer,
		Timestamp:   time.Now().UnixNano(),
		Initiator:   Users[signer].Address,
		AuthRequire: []string{authRequire},
	}
	inputs, _, total, err := st.SelectUtxos(owner, need, false, false)
	if err != nil {
		t.Fatalf("select utxos of %s: %v", owner, err)
	}
	tx.TxInputs = inputs
	tx.TxOutputs = append(tx.TxOutputs, &protos.TxOutput{ToAddr: []byte(to), Amount: need.Bytes()})
	if total.Cmp(need) > 0 {
		delta := big.NewInt(0).Sub(total, need)
		tx.TxOutputs = append(tx.TxOutputs, &protos.TxOutput{ToAddr: []byte(owner), Amount: delta.Bytes()})
	}
	sign, err := txhash.ProcessSignTx(st.sctx.Crypt, tx, []byte(Users[signer].PrivateKey))
	if err != nil {
		t.Fatal(err)
	}
	tx.InitiatorSigns = []*protos.SignatureInfo{{PublicKey: Users[signer].Pubkey, Sign: sign}}
	tx.AuthRequireSigns = []*protos.SignatureInfo{{PublicKey: Users[signer].Pubkey, Sign: sign}}
	tx.Txid, err = txhash.MakeTransactionID(tx)
	if err != nil {
		t.Fatal(err)
	}
	return tx
}

func TestC11ReplayForeignKeyBehindMemberName(t *testing.T) {
	workspace, dirErr := ioutil.TempDir("/tmp", "")
	if dirErr != nil {
		t.Fatal(dirErr)
	}
	os.RemoveAll(workspace)
	defer os.RemoveAll(workspace)
	econf, err := mock.NewEnvConfForTest()
	if err != nil {
		t.Fatal(err)
	}
	logs.InitLog(econf.GenConfFilePath(econf.LogConf), econf.GenDirAbsPath(econf.LogDir))

	lctx, err := ledger_pkg.NewLedgerCtx(econf, "xuper")
	if err != nil {
		t.Fatal(err)
	}
	lctx.EnvCfg.ChainDir = workspace
	ledger, err := ledger_pkg.CreateLedger(lctx, GenesisConf)
	if err != nil {
		t.Fatal(err)
	}
	defer ledger.Close()
	rootTx, err := txn.GenerateRootTx([]byte(`
       {
        "version" : "1"
        , "consensus" : {
                "miner" : "0x00000000000"
        }
        , "predistribution":[
                {
                        "address" : "` + BobAddress + `",
                        "quota" : "1000"
                },
                {
                        "address" : "` + AliceAddress + `",
                        "quota" : "10"
                }
        ]
        , "maxblocksize" : "128"
        , "period" : "5000"
        , "award" : "1000"
        }
    `))
	if err != nil {
		t.Fatal(err)
	}
	block, _ := ledger.FormatRootBlock([]*pb.Transaction{rootTx})
	if confirmStatus := ledger.ConfirmBlock(block, true); !confirmStatus.Succ {
		t.Fatal("confirm block fail")
	}
	crypt, err := crypto_client.CreateCryptoClient(crypto_client.CryptoTypeDefault)
	if err != nil {
		t.Fatal(err)
	}
	sctx, err := context.NewStateCtx(econf, "xuper", ledger, crypt)
	if err != nil {
		t.Fatal(err)
	}
	sctx.EnvCfg.ChainDir = workspace
	stateHandle, err := NewState(sctx)
	if err != nil {
		t.Fatal(err)
	}
	defer stateHandle.Close()
	if playErr := stateHandle.Play(block.Blockid); playErr != nil {
		t.Fatal(playErr)
	}

	// the only account on chain: XC1111111111111111@xuper, controlled by bob alone
	stateHandle.SetAclMG(&c11rpAclMgr{accounts: map[string]*protos.Acl{
		c11rpKnownAccount: {
			Pm:        &protos.PermissionModel{Rule: protos.PermissionRule_SIGN_THRESHOLD, AcceptValue: 1},
			AksWeight: map[string]float64{BobAddress: 1},
		},
	}})

	// bob funds both the known account and the ghost account (two confirmed blocks)
	Users["c11rp-known"] = struct {
		Address    string
		Pubkey     string
		PrivateKey string
	}{Address: c11rpKnownAccount}
	Users["c11rp-ghost"] = struct {
		Address    string
		Pubkey     string
		PrivateKey string
	}{Address: c11rpGhostAccount}
	defer delete(Users, "c11rp-known")
	defer delete(Users, "c11rp-ghost")
	if _, err := transfer("bob", "c11rp-known", t, stateHandle, ledger, "50", ledger.GetMeta().TipBlockid, "", 0); err != nil {
		t.Fatal(err)
	}
	if _, err := transfer("bob", "c11rp-ghost", t, stateHandle, ledger, "60", ledger.GetMeta().TipBlockid, "", 0); err != nil {
		t.Fatal(err)
	}
	if bal, _ := stateHandle.GetBalance(c11rpGhostAccount); bal.String() != "60" {
		t.Fatalf("ghost account should hold 60, got %s", bal)
	}

	// bob, the only member of the rule, may spend
	okTx := c11rpSpendTx(t, stateHandle, "bob", c11rpKnownAccount, BobAddress, c11rpKnownAccount+"/"+BobAddress, "5")
	if ok, err := stateHandle.VerifyTx(okTx); !ok || err != nil {
		t.Fatalf("setup: a spend by the rule's member must be accepted: ok=%v err=%v", ok, err)
	}
	// alice is no member; signing as herself under the account is refused
	plain := c11rpSpendTx(t, stateHandle, "alice", c11rpKnownAccount, AliceAddress, c11rpKnownAccount+"/"+AliceAddress, "5")
	if ok, _ := stateHandle.VerifyTx(plain); ok {
		t.Fatalf("setup: a spend signed by a non-member must be refused")
	}
	// alice signs as herself BEHIND bob's name: account/bob/alice
	forged := c11rpSpendTx(t, stateHandle, "alice", c11rpKnownAccount, AliceAddress, c11rpKnownAccount+"/"+BobAddress+"/"+AliceAddress, "5")
	ok, verr := stateHandle.VerifyTx(forged)
	t.Logf("VerifyTx(account/bob/alice signed by alice) = (%v, %v)", ok, verr)
	if ok {
		t.Errorf("REPRODUCED: a transaction spending the account's output, signed only by alice, was accepted because her signer URI names the rule's member bob before her own key")
	}
}
