package state

import (
	"crypto/ecdsa"
	"crypto/elliptic"
	"crypto/rand"
	"io/ioutil"
	"math/big"
	"os"
	"testing"

	ledger_pkg "github.com/xuperchain/xupercore/bcs/ledger/xledger/ledger"
	"github.com/xuperchain/xupercore/bcs/ledger/xledger/state/context"
	txn "github.com/xuperchain/xupercore/bcs/ledger/xledger/tx"
	pb "github.com/xuperchain/xupercore/bcs/ledger/xledger/xldgpb"
	"github.com/xuperchain/xupercore/kernel/mock"
	crypto_client "github.com/xuperchain/xupercore/lib/crypto/client"
	"github.com/xuperchain/xupercore/lib/logs"
	"github.com/xuperchain/xupercore/protos"
)

// c2NewState builds a fresh ledger + state in which bob owns 100 and alice owns 200.
func c2NewState(t *testing.T) (*State, func()) {
	workspace, dirErr := ioutil.TempDir("/tmp", "")
	if dirErr != nil {
		t.Fatal(dirErr)
	}
	os.RemoveAll(workspace)
	econf, err := mock.NewEnvConfForTest()
	if err != nil {
		t.Fatal(err)
	}
	logs.InitLog(econf.GenConfFilePath(econf.LogConf), econf.GenDirAbsPath(econf.LogDir))

	lctx, err := ledger_pkg.NewLedgerCtx(econf, "xuper")
	if err != nil {
		t.Fatal(err)
	}
	lctx.EnvCfg.ChainDir = workspace
	ledger, err := ledger_pkg.CreateLedger(lctx, GenesisConf)
	if err != nil {
		t.Fatal(err)
	}
	rootTx, err := txn.GenerateRootTx([]byte(`
       {
        "version" : "1"
        , "consensus" : {
                "miner" : "0x00000000000"
        }
        , "predistribution":[
                {
                        "address" : "` + BobAddress + `",
                        "quota" : "100"
                },
				{
                        "address" : "` + AliceAddress + `",
                        "quota" : "200"
                }

        ]
        , "maxblocksize" : "128"
        , "period" : "5000"
        , "award" : "1000"
		}
    `))
	if err != nil {
		t.Fatal(err)
	}
	block, _ := ledger.FormatRootBlock([]*pb.Transaction{rootTx})
	if st := ledger.ConfirmBlock(block, true); !st.Succ {
		t.Fatal("confirm root block fail")
	}
	crypt, err := crypto_client.CreateCryptoClient(crypto_client.CryptoTypeDefault)
	if err != nil {
		t.Fatal(err)
	}
	sctx, err := context.NewStateCtx(econf, "xuper", ledger, crypt)
	if err != nil {
		t.Fatal(err)
	}
	sctx.EnvCfg.ChainDir = workspace
	st, err := NewState(sctx)
	if err != nil {
		t.Fatal(err)
	}
	if err := st.Play(block.Blockid); err != nil {
		t.Fatal(err)
	}
	return st, func() {
		st.Close()
		ledger.Close()
		os.RemoveAll(workspace)
	}
}


// c2UnspentSum scans the utxo table of the state and sums what is unspent.
func c2UnspentSum(t *testing.T, st *State) *big.Int {
	sum := big.NewInt(0)
	for _, addr := range []string{BobAddress, AliceAddress, "miner"} {
		bal, err := st.GetBalance(addr)
		if err != nil {
			t.Fatal(err)
		}
		sum.Add(sum, bal)
	}
	return sum
}

// A block's coinbase (award) transaction is not signature-checked and only its first output
// is compared with the award. One that also CONSUMES outputs whose sum equals its outputs
// passes the input/output check like an ordinary transfer, yet all its outputs are added to
// the total supply: the total no longer equals what is unspent (C02) - and the consumed
// output was spent without anybody's signature.
func TestC02ReplayCoinbaseWithInputs(t *testing.T) {
	st, done := c2NewState(t)
	defer done()
	ledger := st.sctx.Ledger
	minerKey, kerr := ecdsa.GenerateKey(elliptic.P256(), rand.Reader)
	if kerr != nil {
		t.Fatal(kerr)
	}
	// the chain's award is 1000; block 1 is an ordinary block paying it to its proposer
	award, err := txn.GenerateAwardTx("miner", "1000", []byte("award"))
	if err != nil {
		t.Fatal(err)
	}
	block1, err := ledger.FormatFakeBlock([]*pb.Transaction{award}, []byte("miner"), minerKey, 1234, 0, 0, st.GetLatestBlockid(), big.NewInt(0), 1)
	if err != nil {
		t.Fatal(err)
	}
	if cs := ledger.ConfirmBlock(block1, false); !cs.Succ {
		t.Fatalf("confirm 1: %v", cs.Error)
	}
	if err := st.PlayAndRepost(block1.Blockid, false, false); err != nil {
		t.Fatalf("play 1: %v", err)
	}
	if st.GetTotal().Cmp(c2UnspentSum(t, st)) != 0 {
		t.Fatalf("setup: total %s, unspent %s", st.GetTotal(), c2UnspentSum(t, st))
	}
	// block 2: its coinbase spends the 1000 output of block 1 (no signature of anybody)
	// and pays 1000 to the proposer of block 2
	award2, err := txn.GenerateAwardTx("miner", "1000", []byte("award 2"))
	if err != nil {
		t.Fatal(err)
	}
	award2.TxInputs = []*protos.TxInput{{RefTxid: award.Txid, RefOffset: 0, FromAddr: []byte("miner"), Amount: big.NewInt(1000).Bytes()}}
	block2, err := ledger.FormatFakeBlock([]*pb.Transaction{award2}, []byte("miner"), minerKey, 1235, 0, 0, block1.Blockid, big.NewInt(0), 2)
	if err != nil {
		t.Fatal(err)
	}
	if cs := ledger.ConfirmBlock(block2, false); !cs.Succ {
		t.Logf("block 2 refused by the ledger: %v", cs.Error)
		return
	}
	if err := st.PlayAndRepost(block2.Blockid, false, false); err != nil {
		t.Logf("block 2 refused by the state machine: %v", err)
		return
	}
	total, unspent := st.GetTotal(), c2UnspentSum(t, st)
	t.Logf("after block 2: reported total %s, unspent outputs %s", total, unspent)
	if total.Cmp(unspent) != 0 {
		t.Errorf("REPRODUCED[coinbase-with-inputs]: a coinbase transaction that consumes an output was applied: total supply %s, unspent outputs %s", total, unspent)
	}
}
