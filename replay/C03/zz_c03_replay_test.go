package xmodel

// Replay tests for property C03 on the real XModel (injected with go test -overlay).

import (
	"io/ioutil"
	"os"
	"path/filepath"
	"testing"

	"github.com/xuperchain/xupercore/bcs/ledger/xledger/def"
	ledger_pkg "github.com/xuperchain/xupercore/bcs/ledger/xledger/ledger"
	"github.com/xuperchain/xupercore/bcs/ledger/xledger/state/context"
	pb "github.com/xuperchain/xupercore/bcs/ledger/xledger/xldgpb"
	"github.com/xuperchain/xupercore/kernel/mock"
	crypto_client "github.com/xuperchain/xupercore/lib/crypto/client"
	"github.com/xuperchain/xupercore/lib/logs"
	"github.com/xuperchain/xupercore/lib/storage/kvdb"
	"github.com/xuperchain/xupercore/protos"
)

func c03Model(t *testing.T) (*XModel, kvdb.Database, func()) {
	workspace, dirErr := ioutil.TempDir("/tmp", "")
	if dirErr != nil {
		t.Fatal(dirErr)
	}
	os.RemoveAll(workspace)
	econf, err := mock.NewEnvConfForTest()
	if err != nil {
		t.Fatal(err)
	}
	logs.InitLog(econf.GenConfFilePath(econf.LogConf), econf.GenDirAbsPath(econf.LogDir))
	lctx, err := ledger_pkg.NewLedgerCtx(econf, "xuper")
	if err != nil {
		t.Fatal(err)
	}
	lctx.EnvCfg.ChainDir = workspace
	ledger, err := ledger_pkg.CreateLedger(lctx, GenesisConf)
	if err != nil {
		t.Fatal(err)
	}
	crypt, err := crypto_client.CreateCryptoClient(crypto_client.CryptoTypeDefault)
	if err != nil {
		t.Fatal(err)
	}
	sctx, err := context.NewStateCtx(econf, "xuper", ledger, crypt)
	if err != nil {
		t.Fatal(err)
	}
	sctx.EnvCfg.ChainDir = workspace
	storePath := filepath.Join(sctx.EnvCfg.GenDataAbsPath(sctx.EnvCfg.ChainDir), sctx.BCName)
	ldb, err := kvdb.CreateKVInstance(&kvdb.KVParameter{
		DBPath:                filepath.Join(storePath, def.StateStrgDirName),
		KVEngineType:          sctx.LedgerCfg.KVEngineType,
		MemCacheSize:          ledger_pkg.MemCacheSize,
		FileHandlersCacheSize: ledger_pkg.FileHandlersCacheSize,
		OtherPaths:            sctx.LedgerCfg.OtherPaths,
		StorageType:           sctx.LedgerCfg.StorageType,
	})
	if err != nil {
		t.Fatal(err)
	}
	m, err := NewXModel(sctx, ldb)
	if err != nil {
		t.Fatal(err)
	}
	return m, ldb, func() { ldb.Close(); ledger.Close(); os.RemoveAll(workspace) }
}

// c03Write builds a transaction that reads key k at the version (refTxid, 0) and
// overwrites it.
func c03Write(id string, refTxid []byte, value string) *pb.Transaction {
	return &pb.Transaction{
		Txid:         []byte(id),
		TxInputsExt:  []*protos.TxInputExt{{Bucket: "b", Key: []byte("k"), RefTxid: refTxid, RefOffset: 0}},
		TxOutputsExt: []*protos.TxOutputExt{{Bucket: "b", Key: []byte("k"), Value: []byte(value)}},
	}
}

// c03Apply does what the state machine does for one admitted transaction or one
// block: DoTx into a batch, record the transaction, write the batch.
func c03Apply(t *testing.T, m *XModel, ldb kvdb.Database, txs ...*pb.Transaction) error {
	batch := ldb.NewBatch()
	for _, tx := range txs {
		if err := m.DoTx(tx, batch); err != nil {
			return err
		}
		if err := saveUnconfirmTx(tx, batch); err != nil {
			t.Fatal(err)
		}
	}
	return batch.Write()
}

// A block writes k (version B). Pool transaction T1 consumes k@B. A second pool
// transaction T2 citing the SAME version k@B must be refused: the version is spent.
func TestC03ReplayDoubleConsumerAfterBlock(t *testing.T) {
	m, ldb, done := c03Model(t)
	defer done()
	blockTx := c03Write("B", nil, "from the block")
	blockTx.Blockid = []byte("block-1")
	if err := c03Apply(t, m, ldb, blockTx); err != nil {
		t.Fatal(err)
	}
	t1 := c03Write("T1", []byte("B"), "first consumer")
	if err := c03Apply(t, m, ldb, t1); err != nil {
		t.Fatalf("T1 reads the current version and must be admitted: %v", err)
	}
	cur, err := m.Get("b", []byte("k"))
	if err != nil {
		t.Fatal(err)
	}
	t.Logf("current version of b/k after T1: %s", GetVersion(cur))
	t2 := c03Write("T2", []byte("B"), "second consumer of the same version")
	if err := c03Apply(t, m, ldb, t2); err == nil {
		after, _ := m.Get("b", []byte("k"))
		t.Errorf("REPRODUCED: T2 cites b/k@B, already superseded by T1, and was admitted; current version is now %s", GetVersion(after))
	} else {
		t.Logf("T2 refused: %v", err)
	}
}

// Converse: after the same history a transaction citing the CURRENT version (T1's)
// must not be refused as stale.
func TestC03ReplayCurrentInputNotRefused(t *testing.T) {
	m, ldb, done := c03Model(t)
	defer done()
	blockTx := c03Write("B", nil, "from the block")
	blockTx.Blockid = []byte("block-1")
	if err := c03Apply(t, m, ldb, blockTx); err != nil {
		t.Fatal(err)
	}
	if err := c03Apply(t, m, ldb, c03Write("T1", []byte("B"), "first consumer")); err != nil {
		t.Fatal(err)
	}
	if err := c03Apply(t, m, ldb, c03Write("T3", []byte("T1"), "reads the current version")); err != nil {
		t.Errorf("REPRODUCED: T3 cites the current version b/k@T1 and was refused: %v", err)
	}
}
