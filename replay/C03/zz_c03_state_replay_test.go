package state

// Demonstration for property C3S ("what was pre-executed is what is verified
// and committed").
//
// Scenario (all through the real State / XModel / contract manager / sandbox):
//
//   tx1: put  c3s/a=1, c3s/b=2, c3s/c=3
//   tx2: del  c3s/b
//   tx3: "audit": point-reads c3s/b (finds it deleted), range-scans c3s/[a,z)
//        and stores the listing it saw under c3ssum/listing.
//
// Every transaction is produced exactly the way a client does it: the requests
// are pre-executed against the current state, the returned read / write set is
// assembled into a signed transaction, and the transaction is verified and
// committed against that same (unchanged) state.  C3S demands that each of them
// passes verification and that committing changes exactly the keys of the
// pre-executed write set to exactly those values.

import (
	"bytes"
	"crypto/ecdsa"
	"crypto/elliptic"
	"crypto/rand"
	"fmt"
	"math/big"
	"os"
	"path/filepath"
	"testing"
	"time"

	ledger_pkg "github.com/xuperchain/xupercore/bcs/ledger/xledger/ledger"
	"github.com/xuperchain/xupercore/bcs/ledger/xledger/state/context"
	"github.com/xuperchain/xupercore/bcs/ledger/xledger/state/utxo/txhash"
	"github.com/xuperchain/xupercore/bcs/ledger/xledger/state/xmodel"
	txn "github.com/xuperchain/xupercore/bcs/ledger/xledger/tx"
	pb "github.com/xuperchain/xupercore/bcs/ledger/xledger/xldgpb"
	"github.com/xuperchain/xupercore/kernel/contract"
	"github.com/xuperchain/xupercore/kernel/mock"
	crypto_client "github.com/xuperchain/xupercore/lib/crypto/client"
	"github.com/xuperchain/xupercore/lib/logs"
	"github.com/xuperchain/xupercore/protos"
)

const (
	c3sContract  = "$c3sdemo"
	c3sBucket    = "c3s"
	c3sSumBucket = "c3ssum"
)

type c3sEnv struct {
	t     *testing.T
	state *State
	mgr   contract.Manager
}

// newC3SEnv opens a fresh ledger + state and wires a contract manager that only
// has the kernel ("xkernel") vm enabled, plus the acl manager.
func newC3SEnv(t *testing.T) (*c3sEnv, func()) {
	econf, err := mock.NewEnvConfForTest()
	if err != nil {
		t.Fatal(err)
	}
	// the chain dir is resolved below the data dir of the mock environment
	// (kernel/mock/data); use a private sub directory and remove it afterwards.
	workspace := fmt.Sprintf("c3sdemo-%d", time.Now().UnixNano())
	dataRoot := econf.GenDataAbsPath(workspace)
	os.RemoveAll(dataRoot)
	logs.InitLog(econf.GenConfFilePath(econf.LogConf), econf.GenDirAbsPath(econf.LogDir))

	lctx, err := ledger_pkg.NewLedgerCtx(econf, "xuper")
	if err != nil {
		t.Fatal(err)
	}
	lctx.EnvCfg.ChainDir = workspace
	ledger, err := ledger_pkg.CreateLedger(lctx, GenesisConf)
	if err != nil {
		t.Fatal(err)
	}
	rootTx, err := txn.GenerateRootTx([]byte(`
       {
        "version" : "1"
        , "consensus" : { "miner" : "0x00000000000" }
        , "predistribution":[ { "address" : "` + BobAddress + `", "quota" : "100" } ]
        , "maxblocksize" : "128"
        , "period" : "5000"
        , "award" : "1000"
       }`))
	if err != nil {
		t.Fatal(err)
	}
	block, err := ledger.FormatRootBlock([]*pb.Transaction{rootTx})
	if err != nil {
		t.Fatal(err)
	}
	if st := ledger.ConfirmBlock(block, true); !st.Succ {
		t.Fatal("confirm root block failed")
	}
	crypt, err := crypto_client.CreateCryptoClient(crypto_client.CryptoTypeDefault)
	if err != nil {
		t.Fatal(err)
	}
	sctx, err := context.NewStateCtx(econf, "xuper", ledger, crypt)
	if err != nil {
		t.Fatal(err)
	}
	sctx.EnvCfg.ChainDir = workspace
	st, err := NewState(sctx)
	if err != nil {
		t.Fatal(err)
	}
	if err := st.Play(block.Blockid); err != nil {
		t.Fatal(err)
	}

	mgr, err := contract.CreateManager("default", &contract.ManagerConfig{
		BCName:   "xuper",
		Basedir:  filepath.Join(dataRoot, "contract"),
		Core:     st,
		XMReader: st.CreateXMReader(),
		Config: &contract.ContractConfig{
			Xkernel: contract.XkernelConfig{Enable: true, Driver: "default"},
		},
	})
	if err != nil {
		t.Fatal(err)
	}
	lagent, err := NewLedgerAgent(st, ledger)
	if err != nil {
		t.Fatal(err)
	}
	aclMgr, err := NewAcl(lagent, mgr)
	if err != nil {
		t.Fatal(err)
	}
	st.SetAclMG(aclMgr)
	st.SetContractMG(mgr)

	env := &c3sEnv{t: t, state: st, mgr: mgr}
	env.registerContract()
	cleanup := func() {
		st.Close()
		ledger.Close()
		os.RemoveAll(dataRoot)
	}
	return env, cleanup
}

// registerContract installs a tiny kernel contract made of get / put / delete /
// range scan calls only.
func (e *c3sEnv) registerContract() {
	reg := e.mgr.GetKernRegistry()
	ok := func(body string) (*contract.Response, error) {
		return &contract.Response{Status: 200, Message: "ok", Body: []byte(body)}, nil
	}
	reg.RegisterKernMethod(c3sContract, "put", func(ctx contract.KContext) (*contract.Response, error) {
		if err := ctx.Put(c3sBucket, ctx.Args()["key"], ctx.Args()["value"]); err != nil {
			return nil, err
		}
		return ok("")
	})
	reg.RegisterKernMethod(c3sContract, "del", func(ctx contract.KContext) (*contract.Response, error) {
		if err := ctx.Del(c3sBucket, ctx.Args()["key"]); err != nil {
			return nil, err
		}
		return ok("")
	})
	// audit: "is <probe> still there?" followed by a listing of [start, end).
	reg.RegisterKernMethod(c3sContract, "audit", func(ctx contract.KContext) (*contract.Response, error) {
		probe := "present"
		if _, err := ctx.Get(c3sBucket, ctx.Args()["probe"]); err != nil {
			probe = "absent"
		}
		iter, err := ctx.Select(c3sBucket, ctx.Args()["start"], ctx.Args()["end"])
		if err != nil {
			return nil, err
		}
		defer iter.Close()
		listing := fmt.Sprintf("probe=%s;", probe)
		for iter.Next() {
			listing += fmt.Sprintf("%s=%q;", iter.Key(), iter.Value())
		}
		if iter.Error() != nil {
			return nil, iter.Error()
		}
		if err := ctx.Put(c3sSumBucket, []byte("listing"), []byte(listing)); err != nil {
			return nil, err
		}
		return ok(listing)
	})
}

func c3sReq(method string, kv ...string) *protos.InvokeRequest {
	args := map[string][]byte{}
	for i := 0; i+1 < len(kv); i += 2 {
		args[kv[i]] = []byte(kv[i+1])
	}
	return &protos.InvokeRequest{
		ModuleName:   "xkernel",
		ContractName: c3sContract,
		MethodName:   method,
		Args:         args,
	}
}

// preExec mirrors kernel/engines/xuperos Chain.PreExec: run the requests in a
// sandbox on top of the current state and hand back requests (with the resource
// limits that were used), read set and write set.
func (e *c3sEnv) preExec(reqs ...*protos.InvokeRequest) *protos.InvokeResponse {
	t := e.t
	sb, err := e.mgr.NewStateSandbox(&contract.SandboxConfig{
		XMReader:   e.state.CreateXMReader(),
		UTXOReader: e.state.CreateUtxoReader(),
	})
	if err != nil {
		t.Fatal(err)
	}
	resp := &protos.InvokeResponse{}
	for _, req := range reqs {
		ctx, err := e.mgr.NewContext(&contract.ContextConfig{
			State:          sb,
			Initiator:      BobAddress,
			AuthRequire:    []string{BobAddress},
			ResourceLimits: contract.MaxLimits,
			Module:         req.ModuleName,
			ContractName:   req.ContractName,
		})
		if err != nil {
			t.Fatalf("preExec NewContext: %v", err)
		}
		r, err := ctx.Invoke(req.MethodName, req.Args)
		if err != nil {
			ctx.Release()
			t.Fatalf("preExec Invoke %s: %v", req.MethodName, err)
		}
		request := *req
		request.ResourceLimits = contract.ToPbLimits(ctx.ResourceUsed())
		resp.Requests = append(resp.Requests, &request)
		resp.Response = append(resp.Response, r.Body)
		ctx.Release()
	}
	if err := sb.Flush(); err != nil {
		t.Fatal(err)
	}
	rw := sb.RWSet()
	resp.Inputs = xmodel.GetTxInputs(rw.RSet)
	resp.Outputs = xmodel.GetTxOutputs(rw.WSet)
	return resp
}

// assemble turns a pre-execution result into a signed transaction of bob.
func (e *c3sEnv) assemble(resp *protos.InvokeResponse, nonce string) *pb.Transaction {
	t := e.t
	tx := &pb.Transaction{
		Version:          1,
		Nonce:            nonce,
		Timestamp:        time.Now().UnixNano(),
		Desc:             []byte("c3s demo"),
		Initiator:        BobAddress,
		AuthRequire:      []string{BobAddress},
		TxInputsExt:      resp.Inputs,
		TxOutputsExt:     resp.Outputs,
		ContractRequests: resp.Requests,
	}
	sign, err := txhash.ProcessSignTx(e.state.sctx.Crypt, tx, []byte(BobPrivateKey))
	if err != nil {
		t.Fatal(err)
	}
	tx.InitiatorSigns = []*protos.SignatureInfo{{PublicKey: BobPubkey, Sign: sign}}
	tx.AuthRequireSigns = tx.InitiatorSigns
	tx.Txid, err = txhash.MakeTransactionID(tx)
	if err != nil {
		t.Fatal(err)
	}
	return tx
}

// submit = pre-execute, assemble, verify, commit; then check that exactly the
// pre-executed write set is what the state now holds.
func (e *c3sEnv) submit(name string, reqs ...*protos.InvokeRequest) *protos.InvokeResponse {
	t := e.t
	resp := e.preExec(reqs...)
	tx := e.assemble(resp, name)
	okVerify, err := e.state.VerifyTx(tx)
	if err != nil || !okVerify {
		t.Fatalf("%s: the pre-executed read/write set was assembled into a tx and submitted against "+
			"the same state, but verification rejected it: ok=%v err=%v\n  pre-exec response: %q\n  write set: %v",
			name, okVerify, err, resp.Response, resp.Outputs)
	}
	if err := e.state.DoTx(tx); err != nil {
		t.Fatalf("%s: commit failed: %v", name, err)
	}
	for i, out := range resp.Outputs {
		if out.Bucket == xmodel.TransientBucket {
			continue
		}
		vd, err := e.state.xmodel.Get(out.Bucket, out.Key)
		if err != nil {
			t.Fatalf("%s: read back %s/%s: %v", name, out.Bucket, out.Key, err)
		}
		if !bytes.Equal(vd.GetPureData().GetValue(), out.Value) {
			t.Fatalf("%s: committed %s/%s=%q, write set said %q", name, out.Bucket, out.Key,
				vd.GetPureData().GetValue(), out.Value)
		}
		if !bytes.Equal(vd.RefTxid, tx.Txid) || vd.RefOffset != int32(i) {
			t.Fatalf("%s: %s/%s not at version of committing tx", name, out.Bucket, out.Key)
		}
	}
	return resp
}

// Pool: R (reads c3s/a, writes only the listing key) then W (reads c3s/a at the same
// version and overwrites it) - both admissible in that order. A block produced elsewhere
// carries W but not R. After that block R cites a superseded version of c3s/a: it can
// never be part of a valid block again, so it must leave the pool with the block.
func TestC03ReplayStaleReaderStaysInPool(t *testing.T) {
	env, cleanup := newC3SEnv(t)
	defer cleanup()
	env.submit("setup", c3sReq("put", "key", "a", "value", "1"))
	// confirm the setup transaction in a block so that the pool is empty
	pool0, _ := env.state.GetUnconfirmedTx(false)
	minerKey, err := ecdsa.GenerateKey(elliptic.P256(), rand.Reader)
	if err != nil {
		t.Fatal(err)
	}
	ledger := env.state.sctx.Ledger
	mkBlock := func(txs []*pb.Transaction, height int64) *pb.InternalBlock {
		b, err := ledger.FormatFakeBlock(txs, []byte("miner"), minerKey, time.Now().UnixNano(), 0, 0, env.state.GetLatestBlockid(), big.NewInt(0), height)
		if err != nil {
			t.Fatal(err)
		}
		if cs := ledger.ConfirmBlock(b, false); !cs.Succ {
			t.Fatalf("confirm: %v", cs.Error)
		}
		if err := env.state.PlayAndRepost(b.Blockid, false, false); err != nil {
			t.Fatalf("play: %v", err)
		}
		return b
	}
	mkBlock(pool0, 1)
	// R: audit reads c3s/a (probe) and scans nothing ("x".."x"), writes c3ssum/listing
	respR := env.preExec(c3sReq("audit", "probe", "a", "start", "x", "end", "x"))
	txR := env.assemble(respR, "R")
	if err := env.state.DoTx(txR); err != nil {
		t.Fatalf("R: %v", err)
	}
	respW := env.preExec(c3sReq("put", "key", "a", "value", "2"))
	txW := env.assemble(respW, "W")
	if err := env.state.DoTx(txW); err != nil {
		t.Fatalf("W: %v", err)
	}
	// a block from another producer: W only
	cpW := *txW
	mkBlock([]*pb.Transaction{&cpW}, 2)
	pool, _ := env.state.GetUnconfirmedTx(false)
	for _, x := range pool {
		if string(x.Txid) != string(txR.Txid) {
			continue
		}
		for _, in := range x.TxInputsExt {
			ownWrite := false
			for _, out := range x.TxOutputsExt {
				if out.Bucket == in.Bucket && string(out.Key) == string(in.Key) {
					ownWrite = true // R itself is the current writer of this key in the pool state
				}
			}
			if ownWrite {
				continue
			}
			cur, gerr := env.state.xmodel.Get(in.Bucket, in.Key)
			if gerr != nil {
				t.Fatal(gerr)
			}
			if xmodel.GetVersion(cur) != xmodel.GetVersionOfTxInput(in) {
				t.Errorf("REPRODUCED[stale-pool-reader]: after a block that confirmed W without R, R is still in the pool although its declared read %s/%s@%s is no longer current (now %s)", in.Bucket, in.Key, xmodel.GetVersionOfTxInput(in), xmodel.GetVersion(cur))
			}
		}
	}
}
