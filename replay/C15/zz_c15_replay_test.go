package chained_bft

// Replay tests for property C15 on the real pending-proposal tree (injected with
// go test -overlay).

import (
	"bytes"
	"testing"
)

func c15Add(t *testing.T, tree *QCPendingTree, id byte, view int64, parent byte, parentView int64) {
	if err := tree.updateQcStatus(CreateNode(CreateQC([]byte{id}, view, []byte{parent}, parentView))); err != nil {
		t.Fatal(err)
	}
}

// c15MarkersChained reports the first marker that is set together with its
// predecessor but is not that predecessor's parent.
func c15MarkersChained(tree *QCPendingTree) string {
	if g := tree.GetGenericQC(); g != nil && !bytes.Equal(tree.GetHighQC().In.GetParentProposalId(), g.In.GetProposalId()) {
		return "GenericQC is not the parent of HighQC"
	}
	if g, l := tree.GetGenericQC(), tree.GetLockedQC(); g != nil && l != nil && !bytes.Equal(g.In.GetParentProposalId(), l.In.GetProposalId()) {
		return "LockedQC is not the parent of GenericQC"
	}
	if l, c := tree.GetLockedQC(), tree.GetCommitQC(); l != nil && c != nil && !bytes.Equal(l.In.GetParentProposalId(), c.In.GetProposalId()) {
		return "CommitQC is not the parent of LockedQC"
	}
	return ""
}

// Chain 0-1-2-3-4-5, commit through 4 (root becomes 1), then a fork 1-6-7 with higher
// views: the certified marker moves to 6 whose grandparent is no longer in the tree.
func TestC15ReplayStaleMarkersAfterFork(t *testing.T) {
	tree := initQcTree()
	for i := byte(1); i <= 5; i++ {
		c15Add(t, tree, i, int64(i), i-1, int64(i-1))
		if bad := c15MarkersChained(tree); bad != "" {
			t.Errorf("REPRODUCED: after proposal %d: %s", i, bad)
		}
	}
	tree.updateCommit([]byte{4})
	if !bytes.Equal(tree.GetRootQC().In.GetProposalId(), []byte{1}) {
		t.Fatalf("root is %v, expected 1", tree.GetRootQC().In.GetProposalId())
	}
	c15Add(t, tree, 6, 6, 1, 1)
	c15Add(t, tree, 7, 7, 6, 6)
	id := func(n *ProposalNode) interface{} {
		if n == nil {
			return nil
		}
		return n.In.GetProposalId()
	}
	t.Logf("high=%v generic=%v locked=%v commit=%v", id(tree.GetHighQC()), id(tree.GetGenericQC()), id(tree.GetLockedQC()), id(tree.GetCommitQC()))
	if bad := c15MarkersChained(tree); bad != "" {
		t.Errorf("REPRODUCED: after the fork 1-6-7: %s", bad)
	}
}

// ---- stored exactly once (orphans, duplicates) ----

func c15Count(n *ProposalNode, cnt map[string]int) {
	if n == nil {
		return
	}
	cnt[string(n.In.GetProposalId())]++
	for _, s := range n.Sons {
		c15Count(s, cnt)
	}
}

// c15StoredOnce returns a description of the first delivered proposal that is not
// stored exactly once in the tree plus the orphan forest.
func c15StoredOnce(tree *QCPendingTree, delivered map[string]bool) string {
	cnt := map[string]int{}
	c15Count(tree.Root, cnt)
	for e := tree.OrphanList.Front(); e != nil; e = e.Next() {
		c15Count(e.Value.(*ProposalNode), cnt)
	}
	for id := range delivered {
		if cnt[id] != 1 {
			return "proposal " + string(rune('0'+id[0])) + " is stored " + string(rune('0'+cnt[id])) + " times"
		}
	}
	return ""
}

// The same orphan proposal delivered twice, before its parent.
func TestC15ReplayDuplicateOrphan(t *testing.T) {
	tree := initQcTree()
	delivered := map[string]bool{string([]byte{0}): true}
	c15Add(t, tree, 3, 2, 1, 1)
	delivered[string([]byte{3})] = true
	c15Add(t, tree, 3, 2, 1, 1)
	if bad := c15StoredOnce(tree, delivered); bad != "" {
		t.Errorf("REPRODUCED: after a duplicate orphan: %s", bad)
	}
	c15Add(t, tree, 1, 1, 0, 0)
	delivered[string([]byte{1})] = true
	if bad := c15StoredOnce(tree, delivered); bad != "" {
		t.Errorf("REPRODUCED: after the parent arrived: %s", bad)
	}
}

// BOUNDED stand-in for the forest invariant (not a proof): every arrival order of
// the 7-proposal tree 0-1-{2-{3-4,5},6}, each proposal delivered twice in a row;
// after every delivery every delivered proposal is stored exactly once and the
// markers are chained.
func TestC15BoundedAllArrivalOrders(t *testing.T) {
	type prop struct {
		id     byte
		view   int64
		parent byte
	}
	props := []prop{{1, 1, 0}, {2, 2, 1}, {3, 3, 2}, {4, 4, 3}, {5, 3, 2}, {6, 2, 1}}
	views := map[byte]int64{0: 0}
	for _, p := range props {
		views[p.id] = p.view
	}
	idx := []int{0, 1, 2, 3, 4, 5}
	orders, bad := 0, 0
	var permute func(k int)
	permute = func(k int) {
		if bad > 3 {
			return
		}
		if k == len(idx) {
			orders++
			tree := initQcTree()
			delivered := map[string]bool{string([]byte{0}): true}
			for _, i := range idx {
				p := props[i]
				for rep := 0; rep < 2; rep++ {
					c15Add(t, tree, p.id, p.view, p.parent, views[p.parent])
					delivered[string([]byte{p.id})] = true
					if msg := c15StoredOnce(tree, delivered); msg != "" {
						bad++
						t.Errorf("REPRODUCED: order %v, after delivering %d: %s", idx, p.id, msg)
						return
					}
					if msg := c15MarkersChained(tree); msg != "" {
						bad++
						t.Errorf("REPRODUCED: order %v, after delivering %d: %s", idx, p.id, msg)
						return
					}
				}
			}
			return
		}
		for i := k; i < len(idx); i++ {
			idx[k], idx[i] = idx[i], idx[k]
			permute(k + 1)
			idx[k], idx[i] = idx[i], idx[k]
		}
	}
	permute(0)
	t.Logf("BOUNDED: %d arrival orders of 6 proposals (each delivered twice) explored", orders)
}
