package govern_token

// Replay harness for C19 (injected with go test -overlay; never written to /repo).
// A fake KContext over an in-memory map; the scenario is read from env C19_SCENARIO (JSON).

import (
	"encoding/json"
	"errors"
	"math/big"
	"os"
	"testing"

	"github.com/xuperchain/xupercore/kernel/contract"
	"github.com/xuperchain/xupercore/kernel/contract/proposal/utils"
	"github.com/xuperchain/xupercore/protos"
)

type fakeKCtx struct {
	kv        map[string][]byte
	args      map[string][]byte
	initiator string
	caller    string
}

func (c *fakeKCtx) Args() map[string][]byte { return c.args }
func (c *fakeKCtx) Initiator() string       { return c.initiator }
func (c *fakeKCtx) Caller() string          { return c.caller }
func (c *fakeKCtx) AuthRequire() []string   { return nil }
func (c *fakeKCtx) Get(bucket string, key []byte) ([]byte, error) {
	v, ok := c.kv[bucket+"/"+string(key)]
	if !ok {
		return nil, errors.New("not found")
	}
	return v, nil
}
func (c *fakeKCtx) Select(bucket string, startKey []byte, endKey []byte) (contract.Iterator, error) {
	return nil, errors.New("unsupported")
}
func (c *fakeKCtx) Put(bucket string, key, value []byte) error {
	c.kv[bucket+"/"+string(key)] = value
	return nil
}
func (c *fakeKCtx) Del(bucket string, key []byte) error              { delete(c.kv, bucket+"/"+string(key)); return nil }
func (c *fakeKCtx) Transfer(from string, to string, amount *big.Int) error { return nil }
func (c *fakeKCtx) AddEvent(events ...*protos.ContractEvent)          {}
func (c *fakeKCtx) Flush() error                                      { return nil }
func (c *fakeKCtx) RWSet() *contract.RWSet                            { return nil }
func (c *fakeKCtx) UTXORWSet() *contract.UTXORWSet                    { return nil }
func (c *fakeKCtx) AddResourceUsed(delta contract.Limits)             {}
func (c *fakeKCtx) ResourceLimit() contract.Limits                    { return contract.Limits{XFee: 1 << 40} }
func (c *fakeKCtx) Call(module, contract_, method string, args map[string][]byte) (*contract.Response, error) {
	return nil, errors.New("unsupported")
}

type c19Account struct {
	Name     string `json:"name"`
	Total    int64  `json:"total"`
	Ordinary int64  `json:"ordinary"`
	Tdpos    int64  `json:"tdpos"`
}
type c19Scenario struct {
	Accounts []c19Account `json:"accounts"`
	From     string       `json:"from"`
	To       string       `json:"to"`
	Amount   int64        `json:"amount"`
}

func c19put(ctx *fakeKCtx, a c19Account) {
	b := utils.NewGovernTokenBalance()
	b.TotalBalance = big.NewInt(a.Total)
	b.LockedBalance[utils.GovernTokenTypeOrdinary] = big.NewInt(a.Ordinary)
	b.LockedBalance[utils.GovernTokenTypeTDPOS] = big.NewInt(a.Tdpos)
	buf, _ := json.Marshal(b)
	ctx.kv[utils.GetGovernTokenBucket()+"/"+utils.MakeAccountBalanceKey(a.Name)] = buf
}

func c19get(ctx *fakeKCtx, name string) (c19Account, bool) {
	buf, ok := ctx.kv[utils.GetGovernTokenBucket()+"/"+utils.MakeAccountBalanceKey(name)]
	if !ok {
		return c19Account{Name: name}, false
	}
	b := utils.NewGovernTokenBalance()
	json.Unmarshal(buf, b)
	return c19Account{Name: name, Total: b.TotalBalance.Int64(), Ordinary: b.LockedBalance[utils.GovernTokenTypeOrdinary].Int64(), Tdpos: b.LockedBalance[utils.GovernTokenTypeTDPOS].Int64()}, true
}

// TestC19ReplayTransfer: the transfer postcondition of property C19 evaluated on the real code.
func TestC19ReplayTransfer(t *testing.T) {
	var sc c19Scenario
	if w := os.Getenv("REPLAY_WITNESS"); w != "" {
		// the verifier's model: abstract view of sender / receiver records and the amount
		var m struct {
			SenderTotal, SenderOrdinary, SenderTdpos, ReceiverTotal, ReceiverOrdinary, ReceiverTdpos, Amount int64
			ReceiverExists, SameAccount                                                                       bool
		}
		if err := json.Unmarshal([]byte(w), &m); err != nil {
			t.Skip("bad witness")
		}
		sc.From, sc.To, sc.Amount = "alice", "bob", m.Amount
		sc.Accounts = []c19Account{{Name: "alice", Total: m.SenderTotal, Ordinary: m.SenderOrdinary, Tdpos: m.SenderTdpos}}
		if m.SameAccount {
			sc.To = "alice"
		} else if m.ReceiverExists {
			sc.Accounts = append(sc.Accounts, c19Account{Name: "bob", Total: m.ReceiverTotal, Ordinary: m.ReceiverOrdinary, Tdpos: m.ReceiverTdpos})
		}
	} else if err := json.Unmarshal([]byte(os.Getenv("C19_SCENARIO")), &sc); err != nil {
		t.Skip("no scenario")
	}
	ctx := &fakeKCtx{kv: map[string][]byte{}, args: map[string][]byte{"to": []byte(sc.To), "amount": []byte(big.NewInt(sc.Amount).String())}, initiator: sc.From}
	before := map[string]c19Account{}
	var sum int64
	for _, a := range sc.Accounts {
		c19put(ctx, a)
		before[a.Name] = a
		sum += a.Total
	}
	m := NewKernContractMethod("xuper", 1000, nil)
	_, err := m.TransferGovernTokens(ctx)
	names := map[string]bool{sc.From: true, sc.To: true}
	for _, a := range sc.Accounts {
		names[a.Name] = true
	}
	var sumAfter int64
	for n := range names {
		a, _ := c19get(ctx, n)
		sumAfter += a.Total
		b := before[n]
		if a.Ordinary != b.Ordinary || a.Tdpos != b.Tdpos {
			t.Errorf("REPRODUCED: locked amounts of %s changed by a transfer: before %+v after %+v", n, b, a)
		}
	}
	if sumAfter != sum {
		t.Errorf("REPRODUCED: sum of balances changed by a transfer: before %d after %d (err=%v)", sum, sumAfter, err)
	}
	if err == nil {
		s := before[sc.From]
		if sc.Amount < 0 || s.Total-s.Ordinary < sc.Amount || s.Total-s.Tdpos < sc.Amount {
			t.Errorf("REPRODUCED: transfer of %d accepted from %+v", sc.Amount, s)
		}
	}
}
