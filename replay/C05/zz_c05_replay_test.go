package ledger

// Replay tests for properties C05 / C04 on the real ledger (injected with go test
// -overlay): after any operation - failed ones in particular - the running ledger
// must answer every query the way a ledger reopened on the same data does.

import (
	"crypto/ecdsa"
	"crypto/elliptic"
	"crypto/rand"
	"fmt"
	"io/ioutil"
	"math/big"
	"os"
	"sort"
	"testing"

	"github.com/xuperchain/xupercore/bcs/ledger/xledger/state/utxo/txhash"
	pb "github.com/xuperchain/xupercore/bcs/ledger/xledger/xldgpb"
	"github.com/xuperchain/xupercore/kernel/mock"
	"github.com/xuperchain/xupercore/lib/logs"
	"github.com/xuperchain/xupercore/protos"
)

const c05Genesis = `
		{
    "version": "1",
    "predistribution": [
        {
            "address": "TeyyPLpp9L7QAcxHangtcHTu7HUZ6iydY",
            "quota": "100000000000000000000"
        }
    ],
    "maxblocksize": "16",
    "award": "1000000",
    "decimals": "8",
    "award_decay": {
        "height_gap": 31536000,
        "ratio": 1
    },
    "gas_price": {
        "cpu_rate": 1000,
        "mem_rate": 1000000,
        "disk_rate": 1,
        "xfee_rate": 1
    },
    "new_account_resource_amount": 1000,
    "genesis_consensus": {
        "name": "single",
        "config": {
            "miner": "TeyyPLpp9L7QAcxHangtcHTu7HUZ6iydY",
            "period": 3000
        }
    }
}
    `

type c05Chain struct {
	t      *testing.T
	lctx   *LedgerCtx
	l      *Ledger
	key    *ecdsa.PrivateKey
	blocks map[string]*pb.InternalBlock // name -> block
	txs    map[string]*pb.Transaction
	ts     int64
}

func c05New(t *testing.T) *c05Chain {
	workspace, err := ioutil.TempDir("/tmp", "c05")
	if err != nil {
		t.Fatal(err)
	}
	t.Cleanup(func() { os.RemoveAll(workspace) })
	econf, err := mock.NewEnvConfForTest()
	if err != nil {
		t.Fatal(err)
	}
	logs.InitLog(econf.GenConfFilePath(econf.LogConf), econf.GenDirAbsPath(econf.LogDir))
	lctx, err := NewLedgerCtx(econf, "xuper")
	if err != nil {
		t.Fatal(err)
	}
	lctx.EnvCfg.ChainDir = workspace
	l, err := CreateLedger(lctx, []byte(c05Genesis))
	if err != nil {
		t.Fatal(err)
	}
	k, err := ecdsa.GenerateKey(elliptic.P256(), rand.Reader)
	if err != nil {
		t.Fatal(err)
	}
	c := &c05Chain{t: t, lctx: lctx, l: l, key: k, blocks: map[string]*pb.InternalBlock{}, txs: map[string]*pb.Transaction{}, ts: 1000}
	root := &pb.Transaction{Coinbase: true, Desc: []byte(`{"maxblocksize" : "128"}`)}
	root.TxOutputs = append(root.TxOutputs, &protos.TxOutput{Amount: []byte("888"), ToAddr: []byte(BobAddress)})
	root.Txid, _ = txhash.MakeTransactionID(root)
	b, err := l.FormatRootBlock([]*pb.Transaction{root})
	if err != nil {
		t.Fatal(err)
	}
	if st := l.ConfirmBlock(b, true); !st.Succ {
		t.Fatal("genesis not confirmed")
	}
	c.blocks["G"] = b
	c.txs["g"] = root
	return c
}

// tx returns (creating it on first use) a plain transaction with the given name.
func (c *c05Chain) tx(name string) *pb.Transaction {
	if x, ok := c.txs[name]; ok {
		return x
	}
	x := &pb.Transaction{Desc: []byte(name)}
	x.TxOutputs = append(x.TxOutputs, &protos.TxOutput{Amount: []byte("1"), ToAddr: []byte(BobAddress)})
	x.Txid, _ = txhash.MakeTransactionID(x)
	c.txs[name] = x
	return x
}

// add formats block `name` on top of `parent` with copies of the named transactions
// and confirms it; it returns the status.
func (c *c05Chain) add(name, parent string, txNames ...string) ConfirmStatus {
	var txs []*pb.Transaction
	for _, n := range txNames {
		cp := *c.tx(n)
		cp.Blockid = nil
		txs = append(txs, &cp)
	}
	c.ts++
	b, err := c.l.FormatBlock(txs, []byte("miner-"+name), c.key, c.ts, 0, 0, c.blocks[parent].Blockid, big.NewInt(0))
	if err != nil {
		c.t.Fatal(err)
	}
	c.blocks[name] = b
	return c.l.ConfirmBlock(b, false)
}

// view lists what a client can ask about every known block and transaction.
func (c *c05Chain) view(l *Ledger) []string {
	var out []string
	m := l.GetMeta()
	name := func(id []byte) string {
		for n, b := range c.blocks {
			if string(b.Blockid) == string(id) {
				return n
			}
		}
		if len(id) == 0 {
			return "-"
		}
		return "?"
	}
	out = append(out, fmt.Sprintf("meta: tip=%s height=%d", name(m.TipBlockid), m.TrunkHeight))
	for n, b := range c.blocks {
		h, err := l.QueryBlockHeader(b.Blockid)
		if err != nil {
			out = append(out, fmt.Sprintf("block %s: %v", n, err))
			continue
		}
		out = append(out, fmt.Sprintf("block %s: height=%d inTrunk=%v next=%s pre=%s", n, h.Height, h.InTrunk, name(h.NextHash), name(h.PreHash)))
		full, err := l.QueryBlock(b.Blockid)
		if err != nil {
			out = append(out, fmt.Sprintf("full block %s: %v", n, err))
			continue
		}
		out = append(out, fmt.Sprintf("full block %s: height=%d inTrunk=%v next=%s txs=%d", n, full.Height, full.InTrunk, name(full.NextHash), len(full.Transactions)))
	}
	for n, x := range c.txs {
		blk, err := l.QueryBlockByTxid(x.Txid)
		where := "none"
		if err == nil && blk != nil {
			where = name(blk.Blockid)
		}
		out = append(out, fmt.Sprintf("tx %s: inTrunk=%v block=%s", n, l.IsTxInTrunk(x.Txid), where))
	}
	for hgt := int64(0); hgt <= m.TrunkHeight+1; hgt++ {
		b, err := l.QueryBlockByHeight(hgt)
		if err != nil {
			out = append(out, fmt.Sprintf("height %d: none", hgt))
		} else {
			out = append(out, fmt.Sprintf("height %d: %s", hgt, name(b.Blockid)))
		}
	}
	sort.Strings(out)
	return out
}

// compareWithReopened closes nothing: it opens a second ledger on the same directory
// is not possible while the first holds the lock, so the first is closed, reopened,
// and the two views are compared.
func (c *c05Chain) compareWithReopened(label string) {
	live := c.view(c.l)
	c.l.Close()
	l2, err := OpenLedger(c.lctx)
	if err != nil {
		c.t.Fatal(err)
	}
	c.l = l2
	reopened := c.view(l2)
	for i := range live {
		if i < len(reopened) && live[i] != reopened[i] {
			c.t.Errorf("REPRODUCED: %s: the running ledger answers %q, a ledger reopened on the same data answers %q", label, live[i], reopened[i])
		}
	}
}

// A fork block that would switch the trunk is rejected (it repeats a transaction of
// the common part of the chain) AFTER the switch has been prepared in memory.
func TestC05ReplayRejectedTrunkSwitch(t *testing.T) {
	c := c05New(t)
	defer func() { c.l.Close() }()
	if st := c.add("A1", "G", "a1"); !st.Succ {
		t.Fatal("A1", st.Error)
	}
	if st := c.add("A2", "A1", "a2"); !st.Succ {
		t.Fatal("A2", st.Error)
	}
	if st := c.add("B2", "A1", "b2"); !st.Succ {
		t.Fatal("B2", st.Error)
	}
	// B3 extends the branch beyond the trunk but repeats a1 (confirmed in A1, below the fork point)
	st := c.add("B3", "B2", "a1")
	if st.Succ {
		t.Fatal("B3 repeats a transaction of the trunk and must be rejected")
	}
	t.Logf("B3 rejected: %v", st.Error)
	delete(c.blocks, "B3")
	c.compareWithReopened("after the rejected block B3")
}

// The same history, followed by a valid block: what the rejected block left in memory
// must not reach the disk either.
func TestC05ReplayRejectedSwitchThenValidBlock(t *testing.T) {
	c := c05New(t)
	defer func() { c.l.Close() }()
	c.add("A1", "G", "a1")
	c.add("A2", "A1", "a2")
	c.add("B2", "A1", "b2")
	if st := c.add("B3", "B2", "a1"); st.Succ {
		t.Fatal("B3 must be rejected")
	}
	delete(c.blocks, "B3")
	if st := c.add("A3", "A2", "a3"); !st.Succ {
		t.Fatal("A3", st.Error)
	}
	c.compareWithReopened("after rejected B3 and accepted A3")
	v := c.view(c.l)
	for _, line := range v {
		if line == "tx a2: inTrunk=false block=A2" || line == "block A2: height=2 inTrunk=false next=- pre=A1" {
			t.Errorf("REPRODUCED: persisted state after rejected B3 and accepted A3: %s", line)
		}
	}
	t.Logf("%v", v)
}

// A successful trunk switch: every query must follow the new chain (full blocks had
// been read before the switch, so they sit in the block cache).
func TestC05ReplaySuccessfulTrunkSwitch(t *testing.T) {
	c := c05New(t)
	defer func() { c.l.Close() }()
	c.add("A1", "G", "a1")
	c.add("A2", "A1", "a2")
	c.add("B2", "A1", "b2")
	_ = c.view(c.l) // a client reads everything once
	if st := c.add("B3", "B2", "b3"); !st.Succ || !st.TrunkSwitch {
		t.Fatalf("B3 must switch the trunk: %+v", st)
	}
	c.compareWithReopened("after the trunk switched to B3")
}

// Plain extension: the parent's next link changes; a full copy of the parent read
// earlier sits in the block cache.
func TestC05ReplayExtensionAfterRead(t *testing.T) {
	c := c05New(t)
	defer func() { c.l.Close() }()
	c.add("A1", "G", "a1")
	_ = c.view(c.l)
	if st := c.add("A2", "A1", "a2"); !st.Succ {
		t.Fatal(st.Error)
	}
	c.compareWithReopened("after extending the chain with A2")
}

// A block that is already part of the main chain is submitted once more (duplicate
// delivery). Whatever the answer, the chain must stay what it was.
func TestC04ReplayDuplicateTrunkBlock(t *testing.T) {
	c := c05New(t)
	defer func() { c.l.Close() }()
	c.add("A1", "G", "a1")
	c.add("A2", "A1", "a2")
	before := c.view(c.l)
	// the very same block A1 again (a fresh copy of the object, as received from a peer)
	cp := *c.blocks["A1"]
	cp.Transactions = nil
	for _, x := range c.blocks["A1"].Transactions {
		tx := *x
		cp.Transactions = append(cp.Transactions, &tx)
	}
	cp.InTrunk = false
	cp.NextHash = nil
	cp.Height = 0
	st := c.l.ConfirmBlock(&cp, false)
	t.Logf("duplicate A1: succ=%v err=%v", st.Succ, st.Error)
	after := c.view(c.l)
	for i := range before {
		if before[i] != after[i] {
			t.Errorf("REPRODUCED[duplicate]: after submitting trunk block A1 a second time the ledger answers %q (was %q)", after[i], before[i])
		}
	}
}

// Truncation to a block of the main chain: afterwards that block is the tip, nothing
// above it is stored, and every query follows the shortened chain - on the running
// ledger and on a reopened one.
func TestC04ReplayTruncate(t *testing.T) {
	c := c05New(t)
	defer func() { c.l.Close() }()
	c.add("A1", "G", "a1")
	c.add("A2", "A1", "a2")
	c.add("A3", "A2", "a3")
	c.add("B2", "A1", "b2")
	_ = c.view(c.l)
	if err := c.l.Truncate(c.blocks["A2"].Blockid); err != nil {
		t.Fatal(err)
	}
	v := c.view(c.l)
	t.Logf("%v", v)
	for _, line := range v {
		switch line {
		case "meta: tip=A2 height=2", "block A2: height=2 inTrunk=true next=- pre=A1", "full block A2: height=2 inTrunk=true next=- txs=1", "height 3: none":
		}
	}
	has := func(want string) bool {
		for _, line := range v {
			if line == want {
				return true
			}
		}
		return false
	}
	for _, want := range []string{"meta: tip=A2 height=2", "block A2: height=2 inTrunk=true next=- pre=A1", "height 3: none", "tx a2: inTrunk=true block=A2"} {
		if !has(want) {
			t.Errorf("REPRODUCED[truncate]: after Truncate(A2) the ledger does not answer %q", want)
		}
	}
	delete(c.blocks, "A3")
	c.compareWithReopened("after Truncate(A2)")
}
