package state

import (
	"errors"
	"crypto/ecdsa"
	"crypto/elliptic"
	"crypto/rand"
	"io/ioutil"
	"math/big"
	"os"
	"testing"
	"time"

	"github.com/golang/protobuf/proto"
	ledger_pkg "github.com/xuperchain/xupercore/bcs/ledger/xledger/ledger"
	"github.com/xuperchain/xupercore/bcs/ledger/xledger/state/context"
	"github.com/xuperchain/xupercore/bcs/ledger/xledger/state/utxo/txhash"
	"github.com/xuperchain/xupercore/bcs/ledger/xledger/state/xmodel"
	txn "github.com/xuperchain/xupercore/bcs/ledger/xledger/tx"
	pb "github.com/xuperchain/xupercore/bcs/ledger/xledger/xldgpb"
	"github.com/xuperchain/xupercore/kernel/mock"
	crypto_client "github.com/xuperchain/xupercore/lib/crypto/client"
	"github.com/xuperchain/xupercore/lib/logs"
	"github.com/xuperchain/xupercore/lib/storage/kvdb"
	"github.com/xuperchain/xupercore/protos"
)

// c5NewState builds a fresh ledger + state in which bob owns 100 and alice owns 200.
func c5NewState(t *testing.T) (*State, func()) {
	workspace, dirErr := ioutil.TempDir("/tmp", "")
	if dirErr != nil {
		t.Fatal(dirErr)
	}
	os.RemoveAll(workspace)
	econf, err := mock.NewEnvConfForTest()
	if err != nil {
		t.Fatal(err)
	}
	logs.InitLog(econf.GenConfFilePath(econf.LogConf), econf.GenDirAbsPath(econf.LogDir))

	lctx, err := ledger_pkg.NewLedgerCtx(econf, "xuper")
	if err != nil {
		t.Fatal(err)
	}
	lctx.EnvCfg.ChainDir = workspace
	ledger, err := ledger_pkg.CreateLedger(lctx, GenesisConf)
	if err != nil {
		t.Fatal(err)
	}
	rootTx, err := txn.GenerateRootTx([]byte(`
       {
        "version" : "1"
        , "consensus" : {
                "miner" : "0x00000000000"
        }
        , "predistribution":[
                {
                        "address" : "` + BobAddress + `",
                        "quota" : "100"
                },
				{
                        "address" : "` + AliceAddress + `",
                        "quota" : "200"
                }

        ]
        , "maxblocksize" : "128"
        , "period" : "5000"
        , "award" : "1000"
		}
    `))
	if err != nil {
		t.Fatal(err)
	}
	if os.Getenv("C07_MARK_ROOT") != "" {
		rootTx.ModifyBlock = &pb.ModifyBlock{Marked: true, EffectiveHeight: -1}
	}
	block, _ := ledger.FormatRootBlock([]*pb.Transaction{rootTx})
	if st := ledger.ConfirmBlock(block, true); !st.Succ {
		t.Fatal("confirm root block fail")
	}
	crypt, err := crypto_client.CreateCryptoClient(crypto_client.CryptoTypeDefault)
	if err != nil {
		t.Fatal(err)
	}
	sctx, err := context.NewStateCtx(econf, "xuper", ledger, crypt)
	if err != nil {
		t.Fatal(err)
	}
	sctx.EnvCfg.ChainDir = workspace
	st, err := NewState(sctx)
	if err != nil {
		t.Fatal(err)
	}
	if err := st.Play(block.Blockid); err != nil {
		t.Fatal(err)
	}
	return st, func() {
		st.Close()
		ledger.Close()
		os.RemoveAll(workspace)
	}
}

// c5Finish signs tx with the key of `signer` (as initiator and sole auth_require),
// fills in the txid and pushes it through a protobuf round trip, exactly what a
// transaction received from the network looks like.
func c5Finish(t *testing.T, st *State, tx *pb.Transaction, signer string) *pb.Transaction {
	tx.Initiator = Users[signer].Address
	tx.AuthRequire = []string{Users[signer].Address}
	sig, err := txhash.ProcessSignTx(st.sctx.Crypt, tx, []byte(Users[signer].PrivateKey))
	if err != nil {
		t.Fatal(err)
	}
	si := &protos.SignatureInfo{PublicKey: Users[signer].Pubkey, Sign: sig}
	tx.InitiatorSigns = []*protos.SignatureInfo{si}
	tx.AuthRequireSigns = []*protos.SignatureInfo{si}
	tx.Txid, err = txhash.MakeTransactionID(tx)
	if err != nil {
		t.Fatal(err)
	}
	buf, err := proto.Marshal(tx)
	if err != nil {
		t.Fatal(err)
	}
	out := &pb.Transaction{}
	if err := proto.Unmarshal(buf, out); err != nil {
		t.Fatal(err)
	}
	return out
}

func c5Spend(t *testing.T, st *State, owner, to string, version int32) *pb.Transaction {
	need := big.NewInt(100)
	inputs, _, total, err := st.SelectUtxos(Users[owner].Address, need, false, false)
	if err != nil {
		t.Fatal(err)
	}
	tx := &pb.Transaction{
		Version:   version,
		Nonce:     "c07",
		Timestamp: time.Now().UnixNano(),
		TxInputs:  inputs,
	}
	tx.TxOutputs = append(tx.TxOutputs, &protos.TxOutput{ToAddr: []byte(Users[to].Address), Amount: need.Bytes()})
	if total.Cmp(need) > 0 {
		delta := new(big.Int).Sub(total, need)
		tx.TxOutputs = append(tx.TxOutputs, &protos.TxOutput{ToAddr: []byte(Users[owner].Address), Amount: delta.Bytes()})
	}
	return tx
}

var _ = xmodel.Equal
var _ = os.Setenv

// A block whose second transaction cannot be applied (it spends an output that does
// not exist) fails to play. Nothing a client can observe may have changed: here the
// balances of the parties of the FIRST transaction of that block.
func TestC05ReplayFailedBlockPlay(t *testing.T) {
	st, done := c5NewState(t)
	defer done()
	bobBefore, _ := st.GetBalance(Users["bob"].Address)
	aliceBefore, _ := st.GetBalance(Users["alice"].Address)
	tx1 := c5Finish(t, st, c5Spend(t, st, "bob", "alice", 1), "bob")
	// tx2: alice spends an output that was never created
	raw := c5Spend(t, st, "alice", "bob", 1)
	raw.TxInputs[0].RefTxid = []byte("no such transaction")
	tx2 := c5Finish(t, st, raw, "alice")
	ledger := st.sctx.Ledger
	minerKey, kerr := ecdsa.GenerateKey(elliptic.P256(), rand.Reader)
	if kerr != nil {
		t.Fatal(kerr)
	}
	block, err := ledger.FormatFakeBlock([]*pb.Transaction{tx1, tx2}, []byte("miner"), minerKey, 1234, 0, 0, st.GetLatestBlockid(), big.NewInt(0), 1)
	if err != nil {
		t.Fatal(err)
	}
	if cs := ledger.ConfirmBlock(block, false); !cs.Succ {
		t.Fatalf("confirm: %v", cs.Error)
	}
	perr := st.PlayAndRepost(block.Blockid, false, false)
	if perr == nil {
		t.Fatal("the block must fail to play")
	}
	t.Logf("play failed as expected: %v", perr)
	bobAfter, _ := st.GetBalance(Users["bob"].Address)
	aliceAfter, _ := st.GetBalance(Users["alice"].Address)
	t.Logf("bob %s -> %s, alice %s -> %s", bobBefore, bobAfter, aliceBefore, aliceAfter)
	if bobBefore.Cmp(bobAfter) != 0 || aliceBefore.Cmp(aliceAfter) != 0 {
		t.Errorf("REPRODUCED[failed-play]: the block failed to play (%v) but balances changed: bob %s -> %s, alice %s -> %s", perr, bobBefore, bobAfter, aliceBefore, aliceAfter)
	}
	// the output bob spent in tx1 must still be selectable
	if _, _, _, serr := st.SelectUtxos(Users["bob"].Address, big.NewInt(100), false, false); serr != nil {
		t.Errorf("REPRODUCED[failed-play]: after the failed play bob can no longer select his output: %v", serr)
	}
}

// The same with a coinbase transaction before the failing one: the reported total
// supply must not keep the award of a block that was never applied.
func TestC05ReplayFailedBlockPlayTotal(t *testing.T) {
	st, done := c5NewState(t)
	defer done()
	totalBefore := new(big.Int).Set(st.GetTotal())
	award, err := txn.GenerateAwardTx(Users["bob"].Address, "1000", []byte("award"))
	if err != nil {
		t.Fatal(err)
	}
	raw := c5Spend(t, st, "alice", "bob", 1)
	raw.TxInputs[0].RefTxid = []byte("no such transaction")
	bad := c5Finish(t, st, raw, "alice")
	ledger := st.sctx.Ledger
	minerKey, kerr := ecdsa.GenerateKey(elliptic.P256(), rand.Reader)
	if kerr != nil {
		t.Fatal(kerr)
	}
	block, err := ledger.FormatFakeBlock([]*pb.Transaction{award, bad}, []byte("miner"), minerKey, 1234, 0, 0, st.GetLatestBlockid(), big.NewInt(0), 1)
	if err != nil {
		t.Fatal(err)
	}
	if cs := ledger.ConfirmBlock(block, false); !cs.Succ {
		t.Fatalf("confirm: %v", cs.Error)
	}
	perr := st.PlayAndRepost(block.Blockid, false, false)
	if perr == nil {
		t.Fatal("the block must fail to play")
	}
	totalAfter := st.GetTotal()
	t.Logf("play failed: %v; total %s -> %s", perr, totalBefore, totalAfter)
	if totalBefore.Cmp(totalAfter) != 0 {
		t.Errorf("REPRODUCED[failed-play-total]: the block failed to play (%v) but the reported total supply moved from %s to %s", perr, totalBefore, totalAfter)
	}
}

// ---- a batch whose Put of one key fails (injected storage write error) ----
type c5FaultDB struct {
	kvdb.Database
	failKey string
}
type c5FaultBatch struct {
	kvdb.Batch
	failKey string
}

func (d *c5FaultDB) NewBatch() kvdb.Batch {
	return &c5FaultBatch{Batch: d.Database.NewBatch(), failKey: d.failKey}
}
func (b *c5FaultBatch) Put(key []byte, value []byte) error {
	if string(key) == b.failKey {
		return errors.New("injected write error")
	}
	return b.Batch.Put(key, value)
}

// A miner's own block whose irreversible-height record cannot be queued: the play
// reports failure, so the award it had already applied in memory (total supply,
// cached balance, cached output) must not stay visible.
func TestC05ReplayFailedMinerPlayIrreversibleUpdate(t *testing.T) {
	st, done := c5NewState(t)
	defer done()
	// a finality window of one block, as a chain configured with irreversibleslidewindow = 1 has
	st.meta.Meta.IrreversibleSlideWindow = 1
	st.meta.MetaTmp.IrreversibleSlideWindow = 1
	ledger := st.sctx.Ledger
	minerKey, kerr := ecdsa.GenerateKey(elliptic.P256(), rand.Reader)
	if kerr != nil {
		t.Fatal(kerr)
	}
	mkBlock := func() *pb.InternalBlock {
		award, err := txn.GenerateAwardTx(Users["bob"].Address, "1000", []byte("award"))
		if err != nil {
			t.Fatal(err)
		}
		tip, _ := ledger.QueryBlock(st.GetLatestBlockid())
		block, err := ledger.FormatFakeBlock([]*pb.Transaction{award}, []byte("miner"), minerKey, time.Now().UnixNano(), 0, 0, st.GetLatestBlockid(), big.NewInt(0), tip.Height+1)
		if err != nil {
			t.Fatal(err)
		}
		if cs := ledger.ConfirmBlock(block, false); !cs.Succ {
			t.Fatalf("confirm: %v", cs.Error)
		}
		return block
	}
	// height 1: plays normally (1 - window = 0 is not above the current irreversible height)
	if err := st.PlayForMiner(mkBlock().Blockid); err != nil {
		t.Fatalf("first miner block: %v", err)
	}
	totalBefore := new(big.Int).Set(st.GetTotal())
	bobBefore, _ := st.GetBalance(Users["bob"].Address)
	// height 2: the irreversible height moves to 1; queuing that record fails
	realDB := st.ldb
	st.ldb = &c5FaultDB{Database: realDB, failKey: pb.MetaTablePrefix + ledger_pkg.IrreversibleBlockHeightKey}
	perr := st.PlayForMiner(mkBlock().Blockid)
	st.ldb = realDB
	if perr == nil {
		t.Fatal("the play must fail: the irreversible-height record cannot be queued")
	}
	totalAfter := st.GetTotal()
	bobAfter, _ := st.GetBalance(Users["bob"].Address)
	t.Logf("play failed: %v; total %s -> %s, bob %s -> %s", perr, totalBefore, totalAfter, bobBefore, bobAfter)
	if totalBefore.Cmp(totalAfter) != 0 {
		t.Errorf("REPRODUCED[failed-miner-play]: the play failed (%v) but the reported total supply moved from %s to %s", perr, totalBefore, totalAfter)
	}
	if bobBefore.Cmp(bobAfter) != 0 {
		t.Errorf("REPRODUCED[failed-miner-play]: the play failed (%v) but the miner's balance moved from %s to %s", perr, bobBefore, bobAfter)
	}
}

// a database whose batches cannot be written (injected storage write error)
type c5mWriteFailDB struct{ kvdb.Database }
type c5mWriteFailBatch struct{ kvdb.Batch }

func (d *c5mWriteFailDB) NewBatch() kvdb.Batch { return &c5mWriteFailBatch{Batch: d.Database.NewBatch()} }
func (b *c5mWriteFailBatch) Write() error      { return errors.New("injected write error") }

// A block whose batch cannot be written fails to play. The irreversible height it had staged
// (in the meta's staging copy) must not surface later: here a walk to a sibling of the tip
// publishes the staging copy, and the node reports a height no applied block accounts for and
// that is not on disk.
func TestC05ReplayFailedPlayLeavesStagedHeight(t *testing.T) {
	st, done := c5NewState(t)
	defer done()
	st.meta.Meta.IrreversibleSlideWindow = 1
	st.meta.MetaTmp.IrreversibleSlideWindow = 1
	ledger := st.sctx.Ledger
	minerKey, kerr := ecdsa.GenerateKey(elliptic.P256(), rand.Reader)
	if kerr != nil {
		t.Fatal(kerr)
	}
	mkBlock := func(parent []byte, note string) *pb.InternalBlock {
		award, err := txn.GenerateAwardTx(Users["bob"].Address, "1000", []byte(note))
		if err != nil {
			t.Fatal(err)
		}
		pblk, err := ledger.QueryBlock(parent)
		if err != nil {
			t.Fatal(err)
		}
		block, err := ledger.FormatFakeBlock([]*pb.Transaction{award}, []byte("miner"), minerKey, time.Now().UnixNano(), 0, 0, parent, big.NewInt(0), pblk.Height+1)
		if err != nil {
			t.Fatal(err)
		}
		if cs := ledger.ConfirmBlock(block, false); !cs.Succ {
			t.Fatalf("confirm %s: %v", note, cs.Error)
		}
		return block
	}
	root := st.GetLatestBlockid()
	b1 := mkBlock(root, "b1")
	if err := st.PlayAndRepost(b1.Blockid, false, false); err != nil {
		t.Fatal(err)
	}
	b2 := mkBlock(b1.Blockid, "b2")
	if err := st.PlayAndRepost(b2.Blockid, false, false); err != nil {
		t.Fatal(err)
	}
	if h := st.meta.GetIrreversibleBlockHeight(); h != 1 {
		t.Fatalf("setup: irreversible height %d, want 1", h)
	}
	// b3 extends b2; its batch cannot be written
	b3 := mkBlock(b2.Blockid, "b3")
	realDB := st.ldb
	st.ldb = &c5mWriteFailDB{Database: realDB}
	perr := st.PlayAndRepost(b3.Blockid, false, false)
	st.ldb = realDB
	if perr == nil {
		t.Fatal("the play of b3 must fail")
	}
	if h := st.meta.GetIrreversibleBlockHeight(); h != 1 {
		t.Errorf("REPRODUCED[staged-height]: right after the failed play the irreversible height is %d, want 1", h)
	}
	// a sibling of the tip: the walk undoes b2 (height 2 > 1, allowed) and plays c2
	c2 := mkBlock(b1.Blockid, "c2")
	if err := st.Walk(c2.Blockid, false); err != nil {
		t.Fatalf("walk to the sibling: %v", err)
	}
	got := st.meta.GetIrreversibleBlockHeight()
	t.Logf("after failed play of b3 (height 3) and a walk b2 -> c2: irreversible height %d (blocks applied so far reach height 2, window 1)", got)
	if got != 1 {
		t.Errorf("REPRODUCED[staged-height]: the failed play of b3 left its staged irreversible height behind: the node reports %d, no applied block accounts for more than 1", got)
	}
}

// A transaction carrying a "unified" signature (XuperSign): every address it lists - the
// initiator and the last segment of every auth_require entry - is treated as a verified
// signer once the crypto library accepts the signature. For an ordinary ECDSA signature the
// library checks it against the FIRST listed key only. Bob lists himself first, alice (whose
// public key is public) second, signs alone - and spends alice's output.
func TestC07ReplayXuperSignOneSignatureManySigners(t *testing.T) {
	st, done := c5NewState(t)
	defer done()
	need := big.NewInt(200)
	inputs, _, _, err := st.SelectUtxos(Users["alice"].Address, need, false, false)
	if err != nil {
		t.Fatal(err)
	}
	tx := &pb.Transaction{
		Version:     1,
		Nonce:       "c07-xupersign",
		Timestamp:   time.Now().UnixNano(),
		TxInputs:    inputs,
		Initiator:   Users["bob"].Address,
		AuthRequire: []string{Users["alice"].Address},
	}
	tx.TxOutputs = append(tx.TxOutputs, &protos.TxOutput{ToAddr: []byte(Users["bob"].Address), Amount: need.Bytes()})
	sig, err := txhash.ProcessSignTx(st.sctx.Crypt, tx, []byte(Users["bob"].PrivateKey))
	if err != nil {
		t.Fatal(err)
	}
	tx.XuperSign = &pb.XuperSignature{
		PublicKeys: [][]byte{[]byte(Users["bob"].Pubkey), []byte(Users["alice"].Pubkey)},
		Signature:  sig,
	}
	tx.Txid, err = txhash.MakeTransactionID(tx)
	if err != nil {
		t.Fatal(err)
	}
	ok, verr := st.VerifyTx(tx)
	t.Logf("VerifyTx of a spend of alice's output signed by bob alone: ok=%v err=%v", ok, verr)
	if ok {
		t.Errorf("REPRODUCED[xupersign-first-key-only]: alice's output is spent by a transaction that carries one signature, bob's; alice counts as a verified signer because her public key is listed")
	}
}
