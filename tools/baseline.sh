#!/bin/bash
# usage: tools/baseline.sh [pkg-pattern...]   (default ./...)
# Runs /repo's test suite (guard off) and checks that every test listed as stable_pass in
# /root/.vp/BASELINE.json that ran, passed. Output: out/baseline.json.log, summary on stdout.
export GOFLAGS=-mod=mod GOPROXY=off GOSUMDB=off GOTOOLCHAIN=local
mkdir -p /verif/out
cd /repo
pk="${@:-./...}"
go test -json -vet=off -count=1 -timeout 25m $pk > /verif/out/baseline.json.log 2>/dev/null
python3 - <<'P'
import json
base=json.load(open('/root/.vp/BASELINE.json'))
want=set(base['stable_pass'])
res={}
for l in open('/verif/out/baseline.json.log'):
    try: e=json.loads(l)
    except Exception: continue
    if e.get('Test') and e.get('Action') in('pass','fail','skip'):
        res[e['Package']+'::'+e['Test']]=e['Action']
ran=[k for k in want if k in res]
bad=[k for k in ran if res[k]!='pass']
print(f"stable_pass listed={len(want)} ran={len(ran)} passed={len(ran)-len(bad)} not_run={len(want)-len(ran)}")
for k in bad: print("  NOT PASSING:",k,res[k])
P
