#!/bin/bash
# usage: tools/refac.sh <patch> <prop> [<prop>...]
# Applies a behaviour-preserving patch to a scratch worktree of /repo HEAD, runs the quick
# checks against that worktree, removes it. Prints "ALARM" for any check that does not stay clean.
set -u
export GOFLAGS=-mod=mod GOPROXY=off GOSUMDB=off GOTOOLCHAIN=local
V=/verif
patch=$1; shift
tag=$(echo $patch | tr '/.' '__')
wt=/tmp/wt/rf_${tag}_$$
git -C /repo worktree remove --force $wt 2>/dev/null
git -C /repo worktree add -q --detach $wt HEAD || exit 2
trap "git -C /repo worktree remove --force $wt; rm -rf /tmp/wt/smt_$$" EXIT
git -C $wt apply $patch || { echo "NOAPPLY $patch"; exit 2; }
for p in "$@"; do
  out=$(cd $V && ./bin/govc verify --property $p --tier quick --repo $wt --no-evidence --smtdir /tmp/wt/smt_$$ 2>&1 | grep -v "^WARNING conda")
  if echo "$out" | grep -v "^KNOWN-FINDING" | grep -q "VIOLATION\|UNDECIDED\|rror"; then echo "ALARM $patch $p"; echo "$out" | grep "VIOLATION\|UNDECIDED\|rror\|FAILED" | cut -c1-330 | head -6; else echo "clean $patch $p $(echo "$out" | grep '^property=' | sed 's/.*obligations=/obl=/;s/ covers.*//')"; fi
done
