#!/usr/bin/env python3
"""Debug aid: split the goal (=> guard (and c1 ... cn)) of an obligation and test each conjunct separately."""
import subprocess, sys
f = sys.argv[1]
lines = [l for l in open(f).read().split("\n") if l and not l.startswith("(check-sat") and not l.startswith("(get-")]
gi = max(i for i, l in enumerate(lines) if l.startswith("(assert (not "))
goal = lines[gi][len("(assert (not "):-2]
def parse(s, i=0):
    # returns (list-or-atom, next index)
    while s[i] == " ": i += 1
    if s[i] == "(":
        out = []; i += 1
        while True:
            while s[i] == " ": i += 1
            if s[i] == ")": return out, i + 1
            x, i = parse(s, i); out.append(x)
    j = i
    if s[i] == "|":
        j = s.index("|", i + 1) + 1
    else:
        while s[j] not in " ()": j += 1
    return s[i:j], j
def show(x): return x if isinstance(x, str) else "(" + " ".join(show(y) for y in x) + ")"
t, _ = parse(goal)
guards = []
body = t
while isinstance(body, list) and body and body[0] == "=>":
    guards.append(body[1]); body = body[2]
guard = ["and"] + guards if guards else "true"
def flat(b):
    if isinstance(b, list) and b and b[0] == "and":
        r = []
        for y in b[1:]: r += flat(y)
        return r
    return [b]
for k, c in enumerate(flat(body)):
    q = "\n".join(lines[:gi]) + "\n(assert (not (=> %s %s)))\n(check-sat)\n" % (show(guard), show(c))
    open("/verif/out/tmp/conj.smt2", "w").write(q)
    open("/verif/out/tmp/conj_%d.smt2" % k, "w").write(q)
    out = subprocess.run(["z3-new", "-T:8", "/verif/out/tmp/conj.smt2"], capture_output=True, text=True).stdout
    st = [l.strip() for l in out.split("\n") if l.strip() in ("sat", "unsat", "unknown", "timeout")]
    print(k, st[0] if st else "?", show(c)[:160])
