#!/bin/bash
# usage: tools/seed5.sh <name> <prop> <demo-file> <dest-dir> <run-regex> [extra props to try]
# confirm a round-5 seed from /tmp/seed5/<prop>/ and try it in a scratch worktree
name=$1; prop=$2; demo=$3; dest=$4; run=$5; shift 5
cd /verif
tools/seed.sh confirm $name $prop ${SEEDROOT:-/tmp/seed5}/$prop $demo $dest/$demo "$run" $dest 2>&1 | tail -1
[ -f seeded/$name/patch.diff ] && tools/refac.sh /verif/seeded/$name/patch.diff $prop "$@" 2>&1 | grep -v "^WARNING conda" | grep "^clean\|^ALARM\|VIOLATION\|UNDEC\|NOAPPLY" | cut -c1-260
