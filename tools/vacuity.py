#!/usr/bin/env python3
"""Debug aid: find the first assertion that makes the prefix of an SMT file unsatisfiable."""
import subprocess, sys
f = sys.argv[1]
lines = open(f).read().split("\n")
lines = [l for l in lines if l and not l.startswith("(check-sat") and not l.startswith("(get-model")]
idx = [i for i, l in enumerate(lines) if l.startswith("(assert")]
def status(k):
    keep = set(idx[:k])
    txt = "\n".join(l for i, l in enumerate(lines) if (not l.startswith("(assert")) or i in keep) + "\n(check-sat)\n"
    open("/verif/out/tmp/vac.smt2", "w").write(txt)
    out = subprocess.run(["z3-new", "-T:5", "/verif/out/tmp/vac.smt2"], capture_output=True, text=True).stdout
    for l in out.split("\n"):
        if l.strip() in ("sat", "unsat", "unknown", "timeout"):
            return l.strip()
    return "?"
print("all:", status(len(idx)))
lo, hi = 0, len(idx)
while lo < hi:
    mid = (lo + hi) // 2
    if status(mid + 1) == "unsat":
        hi = mid
    else:
        lo = mid + 1
if lo < len(idx):
    print("first unsat prefix ends at assert #%d (line %d):" % (lo, idx[lo] + 1))
    print(lines[idx[lo]][:1500])
