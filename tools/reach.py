#!/usr/bin/env python3
"""Debug aid: which path guards of an SMT file are satisfiable (reachable) under its assumptions?"""
import re, subprocess, sys
f = sys.argv[1]
txt = open(f).read()
lines = [l for l in txt.split("\n") if l and not l.startswith("(check-sat") and not l.startswith("(get-model")]
# drop the final goal assertion
last = max(i for i, l in enumerate(lines) if l.startswith("(assert"))
lines = lines[:last] + lines[last+1:]
guards = re.findall(r"^\(define-fun (\|g@\d+\|) \(\) Bool", "\n".join(lines), re.M)
base = "\n".join(lines)
for g in guards:
    q = base + "\n(assert %s)\n(check-sat)\n" % g
    # the guard must be defined before use: place the assert at the end (all defs precede)
    open("/verif/out/tmp/reach.smt2", "w").write(q)
    out = subprocess.run(["z3-new", "-T:3", "/verif/out/tmp/reach.smt2"], capture_output=True, text=True).stdout
    st = [l.strip() for l in out.split("\n") if l.strip() in ("sat", "unsat", "unknown", "timeout")]
    print(g, st[0] if st else "?")
