#!/usr/bin/env python3
"""./check <id> --replay <replay.json>: re-run a stored counterexample against the current /repo tree."""
import json, os, subprocess, sys
V = "/verif"
prop, path = sys.argv[1], sys.argv[2]
j = json.load(open(path))
tpl, wit = j.get("replay_template"), j.get("witness")
if not tpl or not wit:
    print("replay file has no executable counterexample (obligation %s: %s); solver output is in the file" % (j.get("obligation"), j.get("solver_status")))
    sys.exit(0)
f = tpl["file"] if os.path.isabs(tpl["file"]) else os.path.join(V, tpl["file"])
ov = os.path.join(V, "out", "tmp", "replay_ov_%d.json" % os.getpid())
os.makedirs(os.path.dirname(ov), exist_ok=True)
json.dump({"Replace": {os.path.join("/repo", tpl["pkg"], os.path.basename(f)): f}}, open(ov, "w"))
env = dict(os.environ, GOFLAGS="-mod=mod", GOPROXY="off", GOSUMDB="off", GOTOOLCHAIN="local", REPLAY_WITNESS=json.dumps(wit))
r = subprocess.run(["go", "test", "-overlay", ov, "-vet=off", "-count=1", "-timeout", "120s", "-run", tpl["run"], "-v", "./" + tpl["pkg"] + "/"], cwd="/repo", env=env, capture_output=True, text=True)
os.remove(ov)
print(r.stdout[-3000:])
if "REPRODUCED" in r.stdout:
    print("VIOLATION property=%s replay=%s" % (prop, path))
    sys.exit(1)
print("not reproduced on this tree")
sys.exit(0)
