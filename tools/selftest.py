#!/usr/bin/env python3
"""Must-fail / must-pass corpus runner.

selftest/<prop>/<name>.patch  : unified diff (-p1, relative to /repo)
selftest/<prop>/<name>.expect : first line: comma separated obligation substrings that must FAIL,
                                or the word PASS (a harmless refactoring that must stay green)
The patch is applied to copies of the touched files under out/selftest/ and handed
to govc as a go/packages overlay: /repo itself is never modified.
"""
import json, os, re, shutil, subprocess, sys, concurrent.futures
V = os.path.dirname(os.path.dirname(os.path.abspath(__file__)))
REPO = os.environ.get("REPO", "/repo")

def run_one(prop, name):
    d = os.path.join(V, "selftest", prop)
    patch = os.path.join(d, name + ".patch")
    expect = open(os.path.join(d, name + ".expect")).read().split("\n")[0].strip()
    work = os.path.join(V, "out", "selftest", prop, name)
    shutil.rmtree(work, ignore_errors=True)
    os.makedirs(work)
    files = re.findall(r"^\+\+\+ b/(\S+)", open(patch).read(), re.M)
    for f in files:
        os.makedirs(os.path.dirname(os.path.join(work, f)), exist_ok=True)
        shutil.copy(os.path.join(REPO, f), os.path.join(work, f))
    r = subprocess.run(["patch", "-p1", "-s", "-d", work, "-i", patch], capture_output=True, text=True)
    if r.returncode != 0:
        return (prop, name, False, "patch does not apply: " + r.stdout + r.stderr)
    ov = {os.path.join(REPO, f): os.path.join(work, f) for f in files}
    ovf = os.path.join(work, "overlay.json")
    json.dump(ov, open(ovf, "w"))
    cmd = [os.path.join(V, "bin", "govc"), "verify", "--repo", REPO, "--property", prop, "--no-evidence", "--overlay", ovf, "--smtdir", os.path.join(work, "smt"), "-j", "3"]
    if expect != "PASS":
        cmd += ["--expect-fail", expect]
    r = subprocess.run(cmd, capture_output=True, text=True)
    out = r.stdout + r.stderr
    if expect == "PASS":
        ok = r.returncode == 0 and "VIOLATION" not in out
    else:
        ok = r.returncode == 0 and "SELFTEST-OK" in out
    tail = "\n".join(out.strip().split("\n")[-6:])
    return (prop, name, ok, tail)

def main():
    props = sys.argv[1:] or sorted(os.listdir(os.path.join(V, "selftest")))
    jobs = []
    for p in props:
        d = os.path.join(V, "selftest", p)
        if not os.path.isdir(d):
            continue
        for f in sorted(os.listdir(d)):
            if f.endswith(".patch"):
                jobs.append((p, f[:-6]))
    bad = 0
    with concurrent.futures.ThreadPoolExecutor(max_workers=4) as ex:
        for prop, name, ok, tail in ex.map(lambda j: run_one(*j), jobs):
            print(("ok   " if ok else "FAIL ") + prop + "/" + name)
            if not ok:
                bad += 1
                print("     " + tail.replace("\n", "\n     "))
    print(f"selftest: {len(jobs)-bad}/{len(jobs)} as expected")
    sys.exit(1 if bad else 0)

if __name__ == "__main__":
    main()
