#!/usr/bin/env python3
"""Regenerates MANIFEST.json from tools/claims.json (per-property texts) and properties.jsonl."""
import json, subprocess
V = "/verif"
props = [json.loads(l) for l in open(V + "/properties.jsonl")]
claims = json.load(open(V + "/tools/claims.json"))
hooks = subprocess.run(["git", "-C", "/repo", "log", "--format=%h %s", "c4faa05..HEAD"], capture_output=True, text=True).stdout.strip().split("\n")
hook_commits = [l.split()[0] for l in hooks if l and not l.split(" ", 1)[1].startswith("fix:")]
m = {
 "version": 1,
 "setup_cmd": "cd /verif/govc && GOFLAGS=-mod=vendor GOPROXY=off GOSUMDB=off GOTOOLCHAIN=local go build -o ../bin/govc ./cmd/govc",
 "hooks": {"guard": "verif",
   "enable": "govc loads /repo with -tags=verif; the hooks are comment-only files zz_contracts_verif.go (//go:build verif) holding the //@ contracts, so the compiled code is identical with the tag on or off",
   "baseline_off_cmd": "for m in $(cat /w/out/gomods.txt); do MF=$(cd /repo/$m && . /w/out/goenv.sh && gomodflag); (cd /repo/$m && go test $MF -json -vet=off -count=1 -timeout 25m ./...); done",
   "source_commits": hook_commits, "add_only": True},
 "engines": [{"name": "govc", "path": "/verif/govc", "serves_properties": sorted(claims["claimed"].keys()),
   "kind_free_text": "self-written verification-condition generator for Go (no Go verifier is installed): contracts as //@ comments next to the code, symbolic execution of go/ssa built from /repo's working tree on every run, loop invariants, modular callee contracts, inferred modifies-sets, ghost state; every obligation raced on z3 5.1.0 / z3 4.8.12 / cvc5 1.0.3"}],
 "checks": [], "not_applicable": [],
 "notes": "All claimed checks use one technique: contract-based deductive verification of the real code. DESIGN.md explains the approach, the trusted base and, per property, which part of the statement the contracts decide and which part is outside this family. known_findings.json lists genuine defects (open / fixed)."
}
for p in props:
    i = p["id"]
    if i in claims["claimed"]:
        c = claims["claimed"][i]
        m["checks"].append({"property_id": i, "quick_cmd": f"./check {i} quick", "thorough_cmd": f"./check {i} thorough",
            "evidence_file": f"/verif/evidence/{i}.json", "replay_cmd_template": f"./check {i} --replay {{path}}", "engine": "govc",
            "level_claimed": {"category": "proof", "text": c["text"], "design_ref": "DESIGN.md §3 " + i},
            "level_note": c["note"], "technique": "contract-based deductive verification: govc VC generation over go/ssa + z3/cvc5"})
    else:
        m["not_applicable"].append({"property_id": i, "reason": claims["not_applicable"].get(i, "check not built yet (framework under construction); see DESIGN.md §3 " + i)})
json.dump(m, open(V + "/MANIFEST.json", "w"), indent=1)
print("claimed:", sorted(claims["claimed"].keys()))
