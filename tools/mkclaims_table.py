#!/usr/bin/env python3
"""Regenerates the claims table of DESIGN.md section 0.2 and the numbers of the status line
from the evidence files of the last run."""
import json, glob, re, os
V = os.path.dirname(os.path.dirname(os.path.abspath(__file__)))
rows, tot_o, tot_f = [], 0, 0
for f in sorted(glob.glob(os.path.join(V, "evidence", "C*.json"))):
    e = json.load(open(f)); c = e["coverage"]
    fns = [x["Key"] for x in c.get("functions_under_contract", [])]
    short = ["`" + ".".join(k.split("/")[-1:]) + "`" for k in fns]
    obls = [o for o in c.get("per_obligation", []) if not str(o.get("status", "")).startswith(("covered", "VACUOUS"))]
    covers = [o for o in c.get("per_obligation", []) if str(o.get("status", "")).startswith(("covered", "VACUOUS"))]
    known = [o for o in obls if str(o.get("status", "")).startswith("known-finding")]
    secs = sum(o.get("seconds", 0) for o in c.get("per_obligation", []))
    n = len(obls) - len(known)
    # thorough tier: every solver runs to its answer or time-out - how many obligations
    # rest on a single solver (the fragile ones: a harmless edit may tip them to "unknown")
    single = 0
    if e.get("tier") == "thorough":
        for o in obls:
            a = o.get("all_solvers") or {}
            if len(a) >= 2 and sum(1 for v in a.values() if v == "unsat") == 1:
                single += 1
    singles = str(single) if e.get("tier") == "thorough" else "n/a (quick run)"
    tot_o += n; tot_f += len(fns)
    rows.append("| %s | %d | %d%s | %s | %d | %.1f | %s |" % (e["property_id"], len(fns), n, (" (+%d known finding)" % len(known)) if known else "", singles, len(covers), secs, ", ".join(short)))
table = "| id | functions | obligations (all discharged) | decided by one solver only | vacuity covers | solver s | functions under contract |\n|----|-----------|------------------------------|---------------------------|----------------|----------|--------------------------|\n" + "\n".join(rows) + "\n"
p = os.path.join(V, "DESIGN.md"); s = open(p).read()
i = s.index("| id | functions | obligations (all discharged)"); j = s.index("\nWhat each claim says and what it leaves out", i)
s = s[:i] + table + s[j:]
s = re.sub(r"\d+ proof\nobligations over \d+ function-contract pairs", "%d proof\nobligations over %d function-contract pairs" % (tot_o, tot_f), s)
open(p, "w").write(s)
print("obligations", tot_o, "function-contract pairs", tot_f)
