#!/bin/bash
# usage: tools/overlay_test.sh <pkg-dir-rel-to-repo> <test-file> <run-regex>   (env passed through)
# Runs an in-package test injected via go test -overlay (nothing is written to /repo).
export GOFLAGS=-mod=mod GOPROXY=off GOSUMDB=off GOTOOLCHAIN=local
pkg=$1; file=$2; run=$3
mkdir -p /verif/out/tmp
ov=/verif/out/tmp/ov_$$.json
echo "{\"Replace\": {\"/repo/$pkg/$(basename $file)\": \"$file\"}}" > $ov
cd /repo && go test -overlay $ov -vet=off -count=1 -timeout 120s -run "$run" -v ./$pkg/ 2>&1
rc=$?
rm -f $ov
exit $rc
