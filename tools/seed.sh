#!/bin/bash
# usage: tools/seed.sh confirm <name> <property> <seed-dir> <demo-file> <demo-dest-path> <go-test-run-regex> <pkg> [extra test pkgs...]
#        tools/seed.sh try <name> <prop> [<prop>...]     : apply seeded/<name>/patch.diff to /repo, run checks, revert
# confirm: in a scratch worktree of /repo HEAD: demo passes without the change, fails with it,
# the packages' existing tests still pass with it. Then copies to /verif/seeded/<name>/.
set -u
export GOFLAGS=-mod=mod GOPROXY=off GOSUMDB=off GOTOOLCHAIN=local
V=/verif
cmd=$1; shift
case $cmd in
confirm)
  name=$1; prop=$2; sdir=$3; demo=$4; dest=$5; run=$6; pkg=$7; shift 7
  wt=/tmp/wt/confirm_$name
  git -C /repo worktree remove --force $wt 2>/dev/null
  git -C /repo worktree add -q --detach $wt HEAD || exit 2
  trap "git -C /repo worktree remove --force $wt" EXIT
  cp $sdir/$demo $wt/$dest
  cd $wt
  echo "== demo without change"; go test -vet=off -count=1 -timeout 600s -run "$run" ./$pkg/ > /tmp/confirm_$name.base.log 2>&1; b=$?; tail -3 /tmp/confirm_$name.base.log
  git apply $sdir/patch.diff || { echo "PATCH DOES NOT APPLY to HEAD"; exit 2; }
  echo "== build"; go build $(go list ./... | grep -v 'kvdb/badger$') 2>&1 | tail -3
  echo "== demo with change"; go test -vet=off -count=1 -timeout 600s -run "$run" ./$pkg/ > /tmp/confirm_$name.mut.log 2>&1; m=$?; tail -5 /tmp/confirm_$name.mut.log
  rm $wt/$dest
  echo "== existing tests with change: $pkg $*"
  t=0
  for p in $pkg "$@"; do go test -vet=off -count=1 -timeout 900s ./$p/... 2>&1 | grep -v "^ok\|no test files" | grep -v "TestStateWorkWithLedger\|TestSMR" | grep "FAIL\|panic" | head -5; done > /tmp/confirm_$name.tests.log
  cat /tmp/confirm_$name.tests.log
  # the state package always fails because of TestStateWorkWithLedger: check individual test failures
  bad=$(grep -c -- "--- FAIL" /tmp/confirm_$name.tests.log)
  echo "base_exit=$b mutated_exit=$m other_failing_tests=$bad"
  if [ $b -eq 0 ] && [ $m -ne 0 ]; then
    mkdir -p $V/seeded/$name; cp $sdir/patch.diff $sdir/$demo $V/seeded/$name/; [ -f $sdir/demo_path.txt ] && cp $sdir/demo_path.txt $V/seeded/$name/
    [ -f $sdir/meta.json ] && cp $sdir/meta.json $V/seeded/$name/agent_meta.json
    cat > $V/seeded/$name/meta.json <<EOM
{"property": "$prop", "name": "$name", "demo": "$dest", "demo_run": "go test -vet=off -count=1 -run '$run' ./$pkg/",
 "confirmed": {"demo_passes_without_change": true, "demo_fails_with_change": true, "existing_tests_checked": "$pkg $*", "unexpected_failing_tests": $bad, "at_repo_head": "$(git -C /repo rev-parse --short HEAD)"}}
EOM
    echo "CONFIRMED -> $V/seeded/$name"
  else
    echo "NOT CONFIRMED"
  fi
  ;;
try)
  name=$1; shift
  cd /repo && git diff --quiet || { echo "/repo has uncommitted changes"; exit 2; }
  git -C /repo apply $V/seeded/$name/patch.diff || { echo "patch does not apply"; exit 2; }
  for p in "$@"; do (cd $V && ./check $p quick --no-evidence 2>&1 | grep -v "^WARNING conda" | grep "VIOLATION\|^property=\|UNDECIDED" | cut -c1-300); done
  git -C /repo checkout -- .
  ;;
esac
