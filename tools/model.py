#!/usr/bin/env python3
"""Debug aid: evaluate all zero-arity Bool/Int definitions of an obligation's SMT file in a model."""
import re, subprocess, sys
f = sys.argv[1]
solver = sys.argv[2] if len(sys.argv) > 2 else "z3-new"
pat = sys.argv[3] if len(sys.argv) > 3 else None
txt = open(f).read().replace("(get-model)\n", "")
names = re.findall(r"^\(define-fun (\|[^|]+\|) \(\) (Bool|Int) ", txt, re.M) + re.findall(r"^\(declare-const (\|[^|]+\|) (Bool|Int)\)", txt, re.M)
names = [n for n, s in names if (pat is None or re.search(pat, n))]
q = txt + "(get-value (" + " ".join(names) + "))\n"
open("/verif/out/tmp/model_q.smt2", "w").write(q)
cmd = {"z3-new": ["z3-new", "-T:30"], "z3": ["z3", "-T:30"], "cvc5": ["cvc5", "--produce-models", "--tlimit=30000"]}[solver]
out = subprocess.run(cmd + ["/verif/out/tmp/model_q.smt2"], capture_output=True, text=True).stdout
print(out[:20000])
